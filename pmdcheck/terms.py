# -*- coding: utf-8 -*-
"""
E3 (core) -- def-use term extraction.

A syntax-directed forward dataflow over one function body: every local is replaced by the term that
defines it (with phi terms where control flow merges), and every *effect* (store to an attribute /
subscript, call, raise, return, delete) is recorded as an Event carrying the term(s) involved, the
stack of branch conditions guarding it and the stack of loops it sits in.  Nothing is executed and no
path condition is ever solved: conditions are kept as terms and only compared structurally.

Terms are nested tuples (hashable, printable):

  ('const', v)                         literal / folded constant
  ('param', name)                      function parameter
  ('global', dotted)                   module-level / builtin name (resolved lazily by rules)
  ('attr', base, name)
  ('sub', base, key)                   base[key]          key may be ('slice', lo, hi, step)
  ('call', func, (args..), ((kw, t)..))
  ('binop', op, l, r)   ('unary', op, t)   ('boolop', 'and'|'or', (t..))   ('cmp', (ops..), (operands..))
  ('tuple'|'list'|'set', (t..))        ('dict', ((k, v)..))
  ('ifexp', test, a, b)
  ('elem', iter_term, loop_id)         the element a ``for`` loop draws from iter_term
  ('idx', t, i)                        i-th component of a tuple-unpacked value
  ('phi', (t..))                       merge of several reaching definitions
  ('gate', test, a, b)                 merge after an if statement: a when test held, b otherwise (only in Event.raw /
                                       raw_target / raw_guards; the default view of an event has gates flattened to phi)
  ('carried', name, loop_id)           value left over from a previous loop iteration (or undefined)
  ('undef', name)                      no reaching definition on this path
  ('comp', kind, elt, ((('names', n..), iter, (conds..))..))    comprehension; bound names are ('bound', n)
  ('local', name, alloc_id, init)     a local bound to a freshly allocated container (identity kept so that
                                       later mutations -- stores, .append, .sort -- can be related to it)
  ('lambda', text) ('starred', t) ('fstr', (t..)) ('exc', name)   ('unknown', text)

canonical forms produced by canon() (applied by facts.FCtx to every event):
  ('fmt', (part..))                    string built from literal pieces ('const', str) and values, whatever the spelling:
                                       '%s-%s' % (a, b), '{}-{}'.format(a, b), f'{a}-{b}', a + '-' + b
  ('spec', spec, t)                    a value formatted with a conversion other than plain str (%d, %02d, !r ...)
  ('keyfn', 'item'|'attr', name)       lambda x: x[name] / operator.itemgetter(name);  lambda x: x.name / attrgetter
"""
from __future__ import annotations

import ast


OPS = {ast.Add: "+", ast.Sub: "-", ast.Mult: "*", ast.Div: "/", ast.Mod: "%", ast.BitOr: "|", ast.BitAnd: "&",
       ast.BitXor: "^", ast.FloorDiv: "//", ast.Pow: "**", ast.LShift: "<<", ast.RShift: ">>", ast.MatMult: "@"}
CMPS = {ast.Eq: "==", ast.NotEq: "!=", ast.Lt: "<", ast.LtE: "<=", ast.Gt: ">", ast.GtE: ">=", ast.Is: "is",
        ast.IsNot: "is not", ast.In: "in", ast.NotIn: "not in"}
UNARY = {ast.Not: "not", ast.USub: "-", ast.UAdd: "+", ast.Invert: "~"}


class Event(object):
    __slots__ = ("kind", "target", "value", "guards", "loops", "node", "seq", "extra", "raw", "raw_target", "raw_guards")

    def __init__(self, kind, target, value, guards, loops, node, seq, extra=None):
        self.kind = kind          # 'store' | 'call' | 'raise' | 'return' | 'del' | 'augstore'
        self.target = target
        self.value = value
        self.guards = guards      # tuple of (test_term, polarity)
        self.loops = loops        # tuple of (loop_id, iter_term)
        self.node = node
        self.seq = seq
        self.extra = extra

    @property
    def lineno(self):
        return getattr(self.node, "lineno", 0)

    def __repr__(self):
        return "<%s %s := %s |%d guards, %d loops| line %s>" % (
            self.kind, show(self.target) if self.target else "", show(self.value) if self.value else "",
            len(self.guards), len(self.loops), self.lineno)


def show(t, depth=0):
    """compact human-readable rendering of a term"""
    if not isinstance(t, tuple) or not t:
        return repr(t)
    k = t[0]
    if k == "const":
        return repr(t[1])
    if k in ("param", "global", "bound"):
        return t[1]
    if k == "obj":
        return "<%s %s>" % (t[1], ", ".join("%s=%s" % (a, show(v)) for a, v in t[2])[:80])
    if k == "local":
        return "%s@%d" % (t[1], t[2])
    if k == "attr":
        return "%s.%s" % (show(t[1]), t[2])
    if k == "sub":
        return "%s[%s]" % (show(t[1]), show(t[2]))
    if k == "slice":
        return ":".join("" if x is None else show(x) for x in t[1:])
    if k == "call":
        args = [show(a) for a in t[2]] + ["%s=%s" % (kw, show(v)) for kw, v in t[3]]
        return "%s(%s)" % (show(t[1]), ", ".join(args))
    if k == "binop":
        return "(%s %s %s)" % (show(t[2]), t[1], show(t[3]))
    if k == "unary":
        return "(%s %s)" % (t[1], show(t[2]))
    if k == "boolop":
        return "(" + (" %s " % t[1]).join(show(x) for x in t[2]) + ")"
    if k == "cmp":
        out = show(t[2][0])
        for op, x in zip(t[1], t[2][1:]):
            out += " %s %s" % (op, show(x))
        return "(" + out + ")"
    if k in ("tuple", "list", "set"):
        br = {"tuple": "()", "list": "[]", "set": "{}"}[k]
        return br[0] + ", ".join(show(x) for x in t[1]) + br[1]
    if k == "dict":
        return "{" + ", ".join("%s: %s" % (show(a), show(b)) for a, b in t[1]) + "}"
    if k == "ifexp":
        return "(%s if %s else %s)" % (show(t[2]), show(t[1]), show(t[3]))
    if k == "gate":
        return "gate(%s ? %s : %s)" % (show(t[1]), show(t[2]), show(t[3]))
    if k == "elem":
        return "elem#%s(%s)" % (t[2], show(t[1]))
    if k == "idx":
        return "%s.%d" % (show(t[1]), t[2])
    if k == "phi":
        return "phi(" + " | ".join(show(x) for x in t[1]) + ")"
    if k == "carried":
        return "carried(%s)" % t[1]
    if k == "undef":
        return "undef(%s)" % t[1]
    if k == "comp":
        gens = " ".join("for %s in %s%s" % (",".join(g[0][1:]), show(g[1]), "".join(" if " + show(c) for c in g[2]))
                        for g in t[3])
        return "%s<%s %s>" % (t[1], show(t[2]), gens)
    if k == "starred":
        return "*" + show(t[1])
    if k == "fstr":
        return "f'" + "".join(show(x) for x in t[1]) + "'"
    if k == "fmt":
        return "fmt'" + "".join(x[1] if x[0] == "const" and isinstance(x[1], str) else "{%s}" % show(x) for x in t[1]) + "'"
    if k == "spec":
        return "%s:%s" % (show(t[2]), t[1])
    if k == "keyfn":
        return "key<%s %s>" % (t[1], t[2])
    return "%s<%s>" % (k, ",".join(str(x) for x in t[1:]))


def walk(t):
    """all sub-terms, pre-order"""
    if not isinstance(t, tuple):
        return
    if t and isinstance(t[0], str) and t[0] in _KINDS:
        yield t
        if t[0] == "const":
            return
        children = t[1:]
    else:
        children = t
    for c in children:
        if isinstance(c, tuple):
            for y in walk(c):
                yield y


_KINDS = set(["const", "param", "global", "attr", "sub", "call", "binop", "unary", "boolop", "cmp", "tuple", "list",
              "set", "dict", "ifexp", "elem", "idx", "phi", "carried", "undef", "comp", "lambda", "starred", "fstr",
              "exc", "unknown", "bound", "slice", "local", "fmt", "spec", "keyfn", "gate", "obj"])


def children(t):
    """direct sub-terms of a term"""
    if not isinstance(t, tuple) or not t or t[0] == "const":
        return
    for x in t[1:]:
        for y in _terms_in(x):
            yield y


def _terms_in(x):
    if isinstance(x, tuple):
        if x and isinstance(x[0], str) and x[0] in _KINDS:
            yield x
        else:
            for y in x:
                for z in _terms_in(y):
                    yield z


def subst(t, fn):
    """bottom-up rewrite: fn(term) -> replacement or None"""
    if not isinstance(t, tuple):
        return t
    if t and isinstance(t[0], str) and t[0] in _KINDS:
        if t[0] == "const":
            new = t
        else:
            new = (t[0],) + tuple(subst(x, fn) for x in t[1:])
        r = fn(new)
        return new if r is None else r
    return tuple(subst(x, fn) for x in t)


import re as _re
import string as _string

_PCT = _re.compile(r"%(?:\((\w+)\))?([#0\- +]*\d*(?:\.\d+)?[a-zA-Z%])")


def fmt(*parts):
    """canonical string-building term; plain strings are literal pieces"""
    flat = []
    for x in parts:
        if isinstance(x, str):
            x = ("const", x)
        for y in (x[1] if x[0] == "fmt" else (x,)):
            if y[0] == "const" and isinstance(y[1], str):
                if y[1] == "":
                    continue
                if flat and flat[-1][0] == "const" and isinstance(flat[-1][1], str):
                    flat[-1] = ("const", flat[-1][1] + y[1])
                    continue
            flat.append(y)
    return ("fmt", tuple(flat))


def _fmt_percent(tmpl, rhs):
    pieces = []
    pos = 0
    n = 0
    args = list(rhs[1]) if rhs[0] == "tuple" else None
    for m in _PCT.finditer(tmpl):
        pieces.append(tmpl[pos:m.start()])
        pos = m.end()
        name, spec = m.group(1), m.group(2)
        if spec == "%":
            pieces.append("%")
            continue
        if name is not None:
            val = ("sub", rhs, ("const", name))
            if rhs[0] == "dict":
                hit = [v for k, v in rhs[1] if k == ("const", name)]
                if len(hit) != 1:
                    return None
                val = hit[0]
        elif args is not None:
            if n >= len(args):
                return None
            val = args[n]
        else:
            if n >= 1:
                return None
            val = rhs
        n += 1
        pieces.append(val if spec == "s" else ("spec", "!r" if spec == "r" else ":" + spec, val))
    pieces.append(tmpl[pos:])
    if "%" in "".join(x for x in pieces if isinstance(x, str) and x != "%") and False:
        return None
    if args is not None and n != len(args):
        return None
    return fmt(*pieces)


def _fmt_format(tmpl, args, kws):
    pieces = []
    auto = 0
    try:
        parsed = list(_string.Formatter().parse(tmpl))
    except ValueError:
        return None
    kw = dict((k, v) for k, v in kws if k != "**")
    star = [v for k, v in kws if k == "**"]
    for lit, field, spec, conv in parsed:
        pieces.append(lit)
        if field is None:
            continue
        head = _re.match(r"^(\w*)(.*)$", field)
        name, rest = head.group(1), head.group(2)
        if rest:
            return None
        if name == "":
            idx = auto
            auto += 1
        elif name.isdigit():
            idx = int(name)
        else:
            idx = None
        if idx is not None:
            if idx >= len(args) or args[idx][0] == "starred":
                return None
            val = args[idx]
        elif name in kw:
            val = kw[name]
        elif len(star) == 1:
            val = ("sub", star[0], ("const", name))
        else:
            return None
        if spec or conv:
            val = ("spec", "%s%s" % ("!" + conv if conv else "", ":" + spec if spec else ""), val)
        pieces.append(val)
    return fmt(*pieces)


def _keyfn_of_lambda(text):
    try:
        node = ast.parse(text, mode="eval").body
    except SyntaxError:
        return None
    if not isinstance(node, ast.Lambda) or len(node.args.args) != 1 or node.args.defaults or node.args.vararg or node.args.kwarg:
        return None
    a = node.args.args[0].arg
    b = node.body
    if isinstance(b, ast.Subscript) and isinstance(b.value, ast.Name) and b.value.id == a and isinstance(b.slice, ast.Constant):
        return ("keyfn", "item", b.slice.value)
    if isinstance(b, ast.Attribute) and isinstance(b.value, ast.Name) and b.value.id == a:
        return ("keyfn", "attr", b.attr)
    return None


_STDLIB_ROOTS = ("os", "re", "json", "six", "hashlib", "codecs", "itertools", "operator", "collections", "warnings", "sys")
_CONSUMERS = ("sorted", "set", "frozenset", "list", "tuple", "any", "all", "sum", "min", "max", "dict")


def simplify_boolop(x):
    """and/or with literal operands, preserving the *value* (not only the truth value): a neutral literal that is not the last
    operand disappears (``True and x`` is x, ``None or x`` is x), operands after an absorbing literal are never evaluated
    (``False and x`` is False).  ``x or False`` stays: its value is not x's.  None if nothing to do"""
    if x[0] != "boolop":
        return None
    op, xs = x[1], list(x[2])
    absorbing = (op == "or")
    out = []
    for i, y in enumerate(xs):
        lit = y[0] == "const" and isinstance(y[1], (bool, type(None)))
        if lit and bool(y[1]) == absorbing:
            out.append(y)
            break                       # the rest is never evaluated
        if lit and i < len(xs) - 1:
            continue                    # neutral, and not the value of the whole
        out.append(y)
    if len(out) == len(xs):
        return None
    return out[0] if len(out) == 1 else ("boolop", op, tuple(out))


def _never_none(t):
    """terms that cannot evaluate to None: text, non-None literals, containers, paths joined by os.path.join"""
    if t[0] == "const":
        return t[1] is not None
    if t[0] in ("fmt", "tuple", "list", "dict", "set", "lambda", "obj"):
        return True
    if t[0] == "global" and t[1] in ("int", "str", "bool", "float", "list", "dict", "set", "tuple", "sorted"):
        return True
    if t[0] == "call" and t[1] in (("global", "os.path.join"), ("global", "str"), ("global", "list"), ("global", "dict"),
                                   ("global", "sorted"), ("global", "set"), ("global", "tuple"), ("global", "int"), ("global", "bool")):
        return True
    return False


def canon(t):
    """spelling-independent forms of string building and of sort keys (see the module docstring)"""
    def is_str(x):
        return (x[0] == "const" and isinstance(x[1], str)) or x[0] == "fmt" or (x[0] in ("ifexp", "gate") and is_str(x[2]) and is_str(x[3]))

    def fn(x):
        k = x[0]
        if k == "binop" and x[1] == "%" and x[2][0] == "const" and isinstance(x[2][1], str):
            return _fmt_percent(x[2][1], x[3])
        if k == "call" and x[1][0] == "attr" and x[1][2] == "format" and x[1][1][0] == "const" and isinstance(x[1][1][1], str):
            return _fmt_format(x[1][1][1], x[2], x[3])
        if k == "fstr":
            return fmt(*x[1])
        if k == "boolop" and x[1] == "or" and len(x[2]) > 1 and all(
                y[0] == "call" and y[1] == ("global", "isinstance") and len(y[2]) == 2 and not y[3] and y[2][0] == x[2][0][2][0] for y in x[2]):
            types = []
            for y in x[2]:
                types.extend(y[2][1][1] if y[2][1][0] == "tuple" else (y[2][1],))
            return ("call", ("global", "isinstance"), (x[2][0][2][0], ("tuple", tuple(types))), ())      # one test against all the types
        if k == "cmp" and len(x[1]) == 1 and x[1][0] in ("in", "not in") and x[2][1][0] in ("list", "set") and x[2][1][1] \
                and all(e[0] == "const" for e in x[2][1][1]):
            return ("cmp", x[1], (x[2][0], ("tuple", x[2][1][1])))      # membership in a literal: the kind of literal does not matter
        if k == "call" and x[1][0] == "attr" and x[1][2] == "get" and len(x[2]) == 1 and not x[3] and x[2][0][0] != "starred":
            return ("call", x[1], (x[2][0], ("const", None)), ())       # d.get(k) is d.get(k, None)
        if k == "call" and x[1] in (("global", "os.fspath"), ("global", "six.text_type"), ("global", "os.fsdecode")) and len(x[2]) == 1 and not x[3]:
            return x[2][0]       # the string form of a path: the identity on the strings the properties speak about
        if k == "call" and x[1] == ("global", "hasattr") and len(x[2]) == 2 and x[2][1] == ("const", "__fspath__"):
            return ("const", False)      # the properties speak about paths given as strings: a str is not os.PathLike
        if k == "call" and x[1] == ("global", "getattr") and len(x[2]) == 3 and x[2][1] == ("const", "__fspath__") and x[2][2][0] == "const":
            return x[2][2]
        if k == "comp" and len(x[3]) == 1 and x[3][0][1][0] == "comp" and x[3][0][1][1] in ("gen", "list") and len(x[3][0][1][3]) == 1:
            # a comprehension over a comprehension: one comprehension over the inner collection
            inner = x[3][0][1]
            ovar = ("bound", x[3][0][0][1])
            ivar_name = inner[3][0][0][1]
            def put(t_):
                return subst(t_, lambda y: inner[2] if y == ovar else None)
            return canon(("comp", x[1], put(x[2]), ((("names", ivar_name), inner[3][0][1], tuple(inner[3][0][2]) + tuple(put(c) for c in x[3][0][2])),)))
        if k == "cmp" and len(x[1]) == 1 and x[1][0] in ("is", "is not") and ("const", None) in x[2]:
            other_ = [y for y in x[2] if y != ("const", None)]
            if len(other_) == 1 and other_[0][0] in ("ifexp", "gate"):
                c_, a_, b_ = other_[0][1], other_[0][2], other_[0][3]
                if _never_none(a_) and b_ == ("const", None):
                    return c_ if x[1][0] == "is not" else ("unary", "not", c_)     # (X if c else None) is not None  ==  c
                if _never_none(b_) and a_ == ("const", None):
                    return ("unary", "not", c_) if x[1][0] == "is not" else c_
            if len(other_) == 1 and _never_none(other_[0]):
                return ("const", x[1][0] == "is not")
        if k == "idx" and isinstance(x[2], int) and x[1][0] == "call" and x[1][1][0] == "attr" and x[1][1][2] == "group" \
                and len(x[1][2]) > 1 and x[2] < len(x[1][2]) and not x[1][3]:
            return ("call", x[1][1], (x[1][2][x[2]],), ())                      # m.group("a", "b")[1] is m.group("b")
        if k == "call" and x[1] in (("global", "set"), ("global", "frozenset")) and len(x[2]) == 1 and not x[3] and x[2][0][0] == "comp" \
                and x[2][0][1] in ("gen", "list") and x[1][1] == "set":
            return ("comp", "set") + x[2][0][2:]          # set(<comprehension>) is the set comprehension
        if k == "fmt":
            # a piece chosen by a condition: the text chosen by that condition
            for i_, pc in enumerate(x[1]):
                if pc[0] in ("ifexp", "gate"):
                    a_ = canon(("fmt", x[1][:i_] + (pc[2],) + x[1][i_ + 1:]))
                    b_ = canon(("fmt", x[1][:i_] + (pc[3],) + x[1][i_ + 1:]))
                    return (pc[0], pc[1], a_, b_)
        if k == "boolop":
            sb = simplify_boolop(x)
            if sb is not None:
                return sb
        if k == "fmt" and all(pc[0] == "const" and isinstance(pc[1], str) for pc in x[1]):
            return ("const", "".join(pc[1] for pc in x[1]))          # text built from literals only
        if k == "call" and x[1] == ("global", "getattr") and len(x[2]) == 2 and not x[3] and x[2][1][0] == "const" and isinstance(x[2][1][1], str):
            return ("attr", x[2][0], x[2][1][1])          # getattr(x, "name") with a name known only after folding
        if k == "call" and x[1] in (("global", "any"), ("global", "all")) and len(x[2]) == 1 and not x[3] \
                and x[2][0][0] in ("list", "tuple") and 0 < len(x[2][0][1]) <= 16 and not any(e[0] == "starred" for e in x[2][0][1]):
            # any([a, b]) has the truth value of (a or b)
            els_ = x[2][0][1]
            return els_[0] if len(els_) == 1 else ("boolop", "or" if x[1][1] == "any" else "and", tuple(els_))
        if k == "unary" and x[1] == "not" and x[2][0] == "cmp" and len(x[2][1]) == 1 \
                and x[2][1][0] in ("==", "!=", "in", "not in", "is", "is not"):
            # not (a == b) is a != b: the negation goes into the operator
            neg_ = {"==": "!=", "!=": "==", "in": "not in", "not in": "in", "is": "is not", "is not": "is"}[x[2][1][0]]
            return fn(("cmp", (neg_,), x[2][2])) or ("cmp", (neg_,), x[2][2])
        if k == "unary" and x[1] == "not" and x[2][0] == "boolop":
            # not (a or b) is (not a) and (not b)
            return ("boolop", "and" if x[2][1] == "or" else "or", tuple(fn(("unary", "not", y)) or ("unary", "not", y) for y in x[2][2]))
        if k == "unary" and x[1] == "not" and x[2][0] == "unary" and x[2][1] == "not" and x[2][2][0] in ("cmp", "boolop") :
            return x[2][2]
        if k == "call" and x[1] in (("global", "list"), ("global", "dict"), ("global", "set"), ("global", "tuple")) and not x[2] and not x[3]:
            return ({"list": "list", "dict": "dict", "set": "set", "tuple": "tuple"}[x[1][1]], ())        # list() is []
        if k == "call" and x[1] == ("global", "len") and len(x[2]) == 1 and not x[3] and x[2][0][0] == "const" and isinstance(x[2][0][1], str):
            return ("const", len(x[2][0][1]))          # len("images-")
        if k == "call" and x[1] == ("global", "list") and len(x[2]) == 1 and not x[3] and x[2][0][0] == "comp" and x[2][0][1] == "gen":
            return ("comp", "list") + x[2][0][2:]          # list(<generator expression>) is the list comprehension
        if k == "idx" and x[1][0] in ("ifexp", "gate") and isinstance(x[2], int):
            # an element of a sequence chosen by a condition: the element chosen by that condition
            a_ = fn(("idx", x[1][2], x[2])) or ("idx", x[1][2], x[2])
            b_ = fn(("idx", x[1][3], x[2])) or ("idx", x[1][3], x[2])
            return (x[1][0], x[1][1], a_, b_)
        if k == "sub" and x[1][0] in ("ifexp", "gate") and x[2][0] in ("ifexp", "gate") and x[1][1] == x[2][1]:
            # container and key chosen by the same condition
            return (x[1][0], x[1][1], fn(("sub", x[1][2], x[2][2])) or ("sub", x[1][2], x[2][2]),
                    fn(("sub", x[1][3], x[2][3])) or ("sub", x[1][3], x[2][3]))
        if k == "idx" and x[1][0] in ("tuple", "list") and isinstance(x[2], int) and x[2] < len(x[1][1]) \
                and not any(e[0] == "starred" for e in x[1][1]):
            return x[1][1][x[2]]          # (a, b)[0]
        if k == "call" and x[1] == ("global", "zip") and len(x[2]) >= 2 and not x[3] \
                and all(a[0] in ("tuple", "list") and not any(e[0] == "starred" for e in a[1]) for a in x[2]) \
                and len(set(len(a[1]) for a in x[2])) == 1:
            # zip of literal sequences of one length: the rows written out
            return ("tuple", tuple(("tuple", tuple(a[1][i] for a in x[2])) for i in range(len(x[2][0][1]))))
        if k == "comp" and len(x[3]) == 1 and not x[3][0][2] and x[3][0][1][0] in ("tuple", "list") and 0 < len(x[3][0][1][1]) <= 16 \
                and not any(e[0] == "starred" for e in x[3][0][1][1]):
            # a comprehension over a literal sequence: its elements written out
            var = ("bound", x[3][0][0][1])
            els = [canon(subst(x[2], lambda y, e=e: e if y == var else None)) for e in x[3][0][1][1]]
            if x[1] == "dict":
                if all(e[0] == "tuple" and len(e[1]) == 2 for e in els):
                    return ("dict", tuple((e[1][0], e[1][1]) for e in els))
            else:
                return ("set" if x[1] == "set" else "list", tuple(els))
        path_ = None
        if k == "call" and len(x[2]) == 1 and not x[3]:
            if x[1][0] == "keyfn" and x[1][1] == "attr" and isinstance(x[1][2], str):
                path_ = x[1][2]
            elif x[1][0] == "call" and x[1][1] in (("global", "operator.attrgetter"), ("global", "attrgetter")) and len(x[1][2]) == 1 \
                    and not x[1][3] and x[1][2][0][0] == "const" and isinstance(x[1][2][0][1], str):
                path_ = x[1][2][0][1]
        if path_ is not None:
            # operator.attrgetter("a.b")(obj) is obj.a.b
            out = x[2][0]
            for part in path_.split("."):
                out = ("global", out[1] + "." + part) if out[0] == "global" else ("attr", out, part)
            return out
        if k == "call" and x[1] in (("global", "list"), ("global", "tuple")) and len(x[2]) == 1 and not x[3] \
                and x[2][0][0] in ("tuple", "list") and not any(e[0] == "starred" for e in x[2][0][1]):
            return ("list" if x[1][1] == "list" else "tuple", x[2][0][1])        # list((a, b)) is [a, b]
        if k == "call" and x[1] == ("global", "map") and len(x[2]) == 2 and not x[3] and x[2][0][0] in ("global", "lambda", "keyfn"):
            # map(f, xs) is (f(x) for x in xs)
            used = set(y[1] for y in walk(x) if y[0] == "bound")
            n = 0
            while "$%d" % n in used:
                n += 1
            var = ("bound", "$%d" % n)
            kind_, it_, d_ = dict_iter(x[2][1])
            el_ = var if kind_ in (None, "keys") else ("sub", d_, var) if kind_ == "values" else None
            if el_ is not None and x[2][0][0] == "global":
                return ("comp", "gen", ("call", x[2][0], (el_,), ()), ((("names", var[1]), it_, ()),))
            if el_ is not None and x[2][0][0] == "keyfn" and isinstance(x[2][0][2], str) and "." not in x[2][0][2]:
                body_ = ("attr", el_, x[2][0][2]) if x[2][0][1] == "attr" else ("sub", el_, ("const", x[2][0][2]))
                return ("comp", "gen", body_, ((("names", var[1]), it_, ()),))
        if k == "call" and x[1] == ("global", "dict") and len(x[2]) == 1 and not x[3] and x[2][0][0] in ("list", "tuple") \
                and x[2][0][1] and all(e[0] == "tuple" and len(e[1]) == 2 for e in x[2][0][1]):
            return ("dict", tuple((e[1][0], e[1][1]) for e in x[2][0][1]))      # dict([(k, v), ...]) written out
        if k == "cmp" and len(x[1]) == 1 and x[1][0] in ("is", "is not") and x[2][0][0] == "const" and x[2][1][0] == "const" \
                and (x[2][0][1] is None or x[2][1][1] is None):
            same = x[2][0][1] is None and x[2][1][1] is None
            return ("const", same if x[1][0] == "is" else not same)
        if k == "cmp" and len(x[1]) == 1 and x[1][0] in ("is", "is not") and ("const", None) in x[2]:
            other = [y for y in x[2] if y != ("const", None)]
            if other and other[0][0] == "global" and "." in other[0][1] and other[0][1].split(".")[0] in _STDLIB_ROOTS:
                return ("const", x[1][0] == "is not")     # a standard-library attribute is not None
            if other and other[0][0] == "global" and other[0][1] in ("int", "str", "bool", "float", "list", "dict", "set", "tuple"):
                return ("const", x[1][0] == "is not")     # nor is a builtin type
        if k in ("ifexp", "gate") and x[1][0] == "call" and x[1][1] == ("global", "hasattr") and len(x[1][2]) == 2 \
                and x[1][2][1] == ("const", "__fspath__") and x[3] == x[1][2][0] \
                and x[2] == ("call", ("attr", x[3], "__fspath__"), (), ()):
            return x[3]          # p.__fspath__() if hasattr(p, "__fspath__") else p : the string form of a path
        if k in ("ifexp", "gate") and x[1][0] == "const":
            return x[2] if x[1][1] else x[3]       # a condition that is a literal (an inlined helper's flag parameter)
        if k == "unary" and x[1] == "not" and x[2][0] == "const" and isinstance(x[2][1], bool):
            return ("const", not x[2][1])
        if k == "fmt":
            r = fmt(*x[1])
            return r if r != x else None
        if k == "binop" and x[1] == "+" and (is_str(x[2]) or is_str(x[3])) and not (x[2][0] == "const" and x[3][0] == "const"):
            r_ = fmt(x[2], x[3])
            return fn(r_) or r_          # (a conditional piece is lifted out of the new text as well)
        if k == "call" and x[2] and x[2][0][0] == "comp" and x[2][0][1] == "list" and (
                (x[1][0] == "global" and x[1][1] in _CONSUMERS) or (x[1][0] == "attr" and x[1][2] in ("join", "extend", "update"))):
            # a list comprehension consumed on the spot is as good as a generator expression
            return ("call", x[1], (("comp", "gen") + x[2][0][2:],) + x[2][1:], x[3])
        if k == "call" and x[1][0] == "global" and len(x[2]) == 1 and not x[3]:
            f, a = x[1][1], x[2][0]
            # set([a, b]) / set((a, b))  ->  {a, b}
            if f == "set" and a[0] in ("list", "tuple") and a[1]:
                return ("set", a[1])
            # sorted(list(X)) / set(list(X)) ... -> drop the inner copy;  list(sorted(X)) -> sorted(X)
            if f in ("sorted", "set", "list", "tuple", "frozenset") and a[0] == "call" and a[1][0] == "global" \
                    and a[1][1] in ("list", "tuple") and len(a[2]) == 1 and not a[3]:
                return ("call", x[1], (a[2][0],), ())
            if f in ("list", "tuple") and a[0] == "call" and a[1] == ("global", "sorted"):
                return a
        if k == "lambda":
            return _keyfn_of_lambda(x[1])
        if k == "call" and x[1] in (("global", "operator.itemgetter"), ("global", "itemgetter")) and len(x[2]) == 1 and x[2][0][0] == "const":
            return ("keyfn", "item", x[2][0][1])
        if k == "call" and x[1] in (("global", "operator.attrgetter"), ("global", "attrgetter")) and len(x[2]) == 1 \
                and x[2][0][0] == "const" and isinstance(x[2][0][1], str) and "." not in x[2][0][1]:
            return ("keyfn", "attr", x[2][0][1])
        return None
    return subst(t, fn)


def degate(t):
    """the path-insensitive view: gate(test, a, b) -> phi(a, b), nested phis flattened"""
    def fn(x):
        if x[0] == "gate":
            x = ("phi", (x[2], x[3]))
        if x[0] == "phi":
            flat = []
            for a in x[1]:
                for b in (a[1] if a[0] == "phi" else (a,)):
                    if b not in flat:
                        flat.append(b)
            return flat[0] if len(flat) == 1 else ("phi", tuple(flat))
        return None
    return subst(t, fn)


def truth(t, decide):
    """truth value of a term under ``decide`` (term -> True/False/None for atoms): True / False / None (undecided).
    and/or/not, conditional expressions and comparisons with constants folded by ``decide`` are interpreted"""
    d = decide(t)
    if d is not None:
        return d
    k = t[0]
    if k == "const":
        return bool(t[1])
    if k in ("list", "tuple", "set", "dict") and not any(isinstance(e, tuple) and e and e[0] == "starred" for e in t[1]):
        return bool(t[1])          # a container literal is true exactly when it is not empty
    if k == "unary" and t[1] == "not":
        v = truth(t[2], decide)
        return None if v is None else (not v)
    if k == "boolop":
        vals = [truth(x, decide) for x in t[2]]
        if t[1] == "and":
            if any(v is False for v in vals):
                return False
            return True if all(v is True for v in vals) else None
        if any(v is True for v in vals):
            return True
        return False if all(v is False for v in vals) else None
    if k in ("ifexp", "gate"):
        c = truth(t[1], decide)
        if c is None:
            a, b = truth(t[2], decide), truth(t[3], decide)
            return a if a == b else None
        return truth(t[2] if c else t[3], decide)
    if k == "cmp" and len(t[1]) == 1 and t[1][0] in ("is not", "!=", "not in"):
        pos = {"is not": "is", "!=": "==", "not in": "in"}[t[1][0]]
        v = decide(("cmp", (pos,), t[2]))
        return None if v is None else (not v)
    return None


def select(t, decide):
    """the value of a term on the paths described by ``decide``: gates and conditional expressions whose test is decided are
    replaced by the chosen branch (innermost first, so tests are themselves evaluated on those paths)"""
    def fn(x):
        if x[0] in ("gate", "ifexp"):
            c = truth(x[1], decide)
            if c is not None:
                return x[2] if c else x[3]
        if x[0] == "boolop":
            # a or b: a when a is true, b when a is false (and dually)
            rest = list(x[2])
            while len(rest) > 1:
                c = truth(rest[0], decide)
                if c is None:
                    break
                if (x[1] == "or") == c:
                    return rest[0]
                rest = rest[1:]
            if len(rest) != len(x[2]):
                return rest[0] if len(rest) == 1 else ("boolop", x[1], tuple(rest))
        return None
    return canon(subst(t, fn))


def phi_form(t):
    """conditional expressions seen as merges: ifexp(c, a, b) -> phi(a, b), nested phis flattened.  Rules that compare the set
    of values a variable may hold use this so that ``x = a if c else b`` (or a helper returning a or b) and
    ``if c: x = a / else: x = b`` look the same; the conditions are then read from the guards of the bind events"""
    def fn(x):
        if x[0] == "ifexp":
            x = ("phi", (x[2], x[3]))
        if x[0] == "phi":
            flat = []
            for a in x[1]:
                for b in (a[1] if a[0] == "phi" else (a,)):
                    if b not in flat:
                        flat.append(b)
            return flat[0] if len(flat) == 1 else ("phi", tuple(flat))
        return None
    return subst(t, fn)


def bool_form(t):
    """a term used only for its truth value: conditional expressions over boolean constants (the decision tree of an inlined
    predicate helper) become and/or/not"""
    if t[0] == "call" and t[1] == ("global", "bool") and len(t[2]) == 1 and not t[3]:
        return bool_form(t[2][0])        # bool(x) has the truth value of x
    if t[0] == "unary" and t[1] == "not":
        return ("unary", "not", bool_form(t[2]))
    if t[0] != "ifexp":
        return t
    c, a, b = bool_form(t[1]), bool_form(t[2]), bool_form(t[3])
    T_, F_ = ("const", True), ("const", False)

    def neg(x):
        return ("unary", "not", x)

    def mk(op, xs):
        flat = []
        for x in xs:
            flat.extend(x[2] if x[0] == "boolop" and x[1] == op else (x,))
        return ("boolop", op, tuple(flat))
    if a == T_ and b == F_:
        return c
    if a == F_ and b == T_:
        return neg(c)
    if a == T_:
        return mk("or", (c, b))
    if b == F_:
        return mk("and", (c, a))
    if a == F_:
        return mk("and", (neg(c), b))
    if b == T_:
        return mk("or", (neg(c), a))
    return ("ifexp", c, a, b)


def alts(t):
    """the alternative values of a term (phi / conditional-expression leaves)"""
    t = phi_form(t)
    return list(t[1]) if t[0] == "phi" else [t]


def contains(t, pred):
    for x in walk(t):
        if pred(x):
            return True
    return False


def attr_chain(t):
    """('attr', ('attr', ('param','self'), 'a'), 'b') -> 'self.a.b' ; None if not a pure chain"""
    parts = []
    while isinstance(t, tuple) and t and t[0] == "attr":
        parts.append(t[2])
        t = t[1]
    if isinstance(t, tuple) and t and t[0] in ("param", "global", "bound"):
        parts.append(t[1])
        return ".".join(reversed(parts))
    return None


def attr_chain_term(root, names):
    t = root
    for n in names:
        t = ("attr", t, n)
    return t


def attr_chains(t):
    """maximal attribute chains occurring in a term"""
    out = []

    def rec(x, top=True):
        if not isinstance(x, tuple) or not x:
            return
        if isinstance(x[0], str) and x[0] in _KINDS:
            if x[0] == "attr":
                c = attr_chain(x)
                if c is not None:
                    out.append(c)
                    return
            if x[0] == "const":
                return
            for y in x[1:]:
                rec(y)
        else:
            for y in x:
                rec(y)
    rec(t)
    return out


def calls_in(t):
    """names of functions/methods applied anywhere in the term ('sorted', '.join', 'int', ...)"""
    out = []
    for x in walk(t):
        if isinstance(x, tuple) and x and x[0] == "call":
            f = x[1]
            if f[0] == "global":
                out.append(f[1])
            elif f[0] == "attr":
                out.append("." + f[2])
            else:
                out.append("?")
    return out


def root_of(t):
    """the name at the root of an access path (attr/sub/call-on-method chains), or None"""
    while isinstance(t, tuple) and t:
        k = t[0]
        if k in ("attr", "sub", "idx"):
            t = t[1]
        elif k == "call":
            t = t[1]
        elif k in ("param", "global", "bound", "local"):
            return t
        elif k == "elem":
            t = t[1]
        else:
            return None
    return None


_KEYS = ("keys", "iterkeys", "viewkeys")
_VALUES = ("values", "itervalues", "viewvalues")
_ITEMS = ("items", "iteritems", "viewitems")


def dict_iter(it):
    """an iterable drawn from a mapping, whatever the spelling: -> (kind, canonical iterable, mapping) with kind in
    'keys' | 'values' | 'items' | None.  The canonical iterable is the mapping itself (or sorted(mapping) / list(mapping)):
    iterating a mapping yields its keys, values are mapping[key]."""
    def strip(x):
        if x[0] == "call" and x[1][0] == "attr" and not x[2] and not x[3]:
            for kind, names in (("keys", _KEYS), ("values", _VALUES), ("items", _ITEMS)):
                if x[1][2] in names:
                    return kind, x[1][1]
        if x[0] == "call" and x[1][0] == "global" and len(x[2]) == 1 and not x[3]:
            for kind, names in (("keys", _KEYS), ("values", _VALUES), ("items", _ITEMS)):
                if x[1][1] in tuple("six." + n for n in names):
                    return kind, x[2][0]
        return None, x
    k, d = strip(it)
    if k and d == ("param", "self"):
        return None, it, None         # self.keys() inside a mapping class is that class's own (possibly overridden) method
    if k:
        return k, d, d
    if it[0] == "call" and it[1] in (("global", "sorted"), ("global", "list"), ("global", "tuple")) and len(it[2]) == 1:
        k, d = strip(it[2][0])
        srt = it[1] == ("global", "sorted")
        if k == "keys":
            return k, ("call", it[1], (d,), it[3]), d
        if k == "items" and (not srt or not it[3]):
            # sorting (key, value) pairs of a mapping is sorting its keys
            return k, ("call", it[1], (d,), ()), d
        if k == "values" and not srt:
            return k, ("call", it[1], (d,), ()), d
    return None, it, None


def fold_lazy_init(func_node):
    """``x = None`` ... ``if x is None: x = E`` (the only other assignment to x, E built from names the function never
    rebinds) is the lazy spelling of ``x = E`` at the place of the ``if``: from there on x *is* E.  Returns the function with the
    idiom written out that way (a copy), or the function itself when the idiom does not occur."""
    assigns = {}
    stores = {}
    for n in ast.walk(func_node):
        if isinstance(n, ast.Name) and isinstance(n.ctx, (ast.Store, ast.Del)):
            stores[n.id] = stores.get(n.id, 0) + 1
        if isinstance(n, ast.Assign) and len(n.targets) == 1 and isinstance(n.targets[0], ast.Name):
            assigns.setdefault(n.targets[0].id, []).append(n)
    params = set(a.arg for a in func_node.args.posonlyargs + func_node.args.args + func_node.args.kwonlyargs)
    todo = {}
    for name, al in assigns.items():
        if len(al) != 2 or stores.get(name) != 2 or name in params:
            continue
        nones = [a for a in al if isinstance(a.value, ast.Constant) and a.value.value is None]
        others = [a for a in al if a not in nones]
        if len(nones) != 1 or len(others) != 1:
            continue
        e = others[0].value
        free = set(x.id for x in ast.walk(e) if isinstance(x, ast.Name))
        if name in free or any(stores.get(v) and v not in params for v in free) or any(stores.get(v) for v in free & params):
            continue
        todo[name] = (nones[0], others[0])
    if not todo:
        return func_node
    found = set()

    def is_lazy_if(st):
        if isinstance(st, ast.If) and not st.orelse and len(st.body) == 1 and isinstance(st.test, ast.Compare) and len(st.test.ops) == 1 \
                and isinstance(st.test.ops[0], ast.Is) and isinstance(st.test.left, ast.Name) and st.test.left.id in todo \
                and isinstance(st.test.comparators[0], ast.Constant) and st.test.comparators[0].value is None \
                and st.body[0] is todo[st.test.left.id][1]:
            return st.test.left.id
        return None
    for n in ast.walk(func_node):
        for fld in ("body", "orelse", "finalbody"):
            blk = getattr(n, fld, None)
            if isinstance(blk, list):
                for st in blk:
                    nm = is_lazy_if(st)
                    if nm:
                        found.add(nm)
    if not found:
        return func_node
    import copy
    new = copy.deepcopy(func_node)
    # (positions are kept: the copy is walked in the same order as the original)
    orig_nodes = list(ast.walk(func_node))
    new_nodes = list(ast.walk(new))
    twin = dict((id(o), c) for o, c in zip(orig_nodes, new_nodes))
    drop = set(id(twin[id(todo[nm][0])]) for nm in found)
    lazy = dict((id(twin[id(st)]), twin[id(st)].body[0]) for st in orig_nodes if is_lazy_if(st) in found)
    for n in new_nodes:
        for fld in ("body", "orelse", "finalbody"):
            blk = getattr(n, fld, None)
            if isinstance(blk, list) and blk and isinstance(blk[0], ast.stmt):
                out = []
                for st in blk:
                    if id(st) in drop:
                        continue
                    out.append(lazy.get(id(st), st))
                if not out:
                    out = [ast.copy_location(ast.Pass(), blk[0])]
                setattr(n, fld, out)
    return new


class Extractor(object):
    """Run over one FunctionDef; result: .events (ordered), .env_at_exit, .params"""

    def __init__(self, func_node, const_resolver=None, inliner=None, parent=None, init_env=None, depth=0, grename=None,
                 self_consts=None, attr_renames=None, gspell=None, sigs=None):
        # f(callee term) -> names of the callee's positional parameters when the callee is one of the package's own functions
        self.sigs = sigs if sigs is not None else (parent.sigs if parent is not None else None)
        self.grename = grename      # spelling of module-level names of a body inlined from another module
        # pinned spelling of a module-level name of the analysed function's module, whatever its import style (known_imports)
        self.gspell = gspell if gspell is not None else (parent.gspell if parent is not None else None)
        # {new attribute name: pinned name} for back-pointers a refactoring renamed consistently
        self.attr_renames = attr_renames if attr_renames is not None else (parent.attr_renames if parent is not None else None)
        # (name of the analysed method's self, lookup of class-level constants seen through it)
        self.self_consts = self_consts if self_consts is not None else (parent.self_consts if parent is not None else None)
        func_node = fold_lazy_init(func_node)
        self.func = func_node
        self.inliner = inliner
        self.parent = parent
        self.depth = depth
        self.inlined = []            # names of the helpers that were inlined
        if parent is None:
            self.events = []
            self._counters = {"seq": 0, "loop": 0, "alloc": 0}
            self.locals_alloc = {}
            self.loop_pre = {}
            self.loop_guards = {}        # loop id -> guards in force at the loop statement
        else:
            # a nested extractor (inlined callee) shares the event list and the id counters of its caller
            self.events = parent.events
            self._counters = parent._counters
            self.locals_alloc = parent.locals_alloc
            self.loop_pre = parent.loop_pre
            self.loop_guards = parent.loop_guards
        self._yield_to = None        # (for statement, caller's environment) while a generator helper is run in place of the loop
        self._exit_envs = {}
        self.return_values = []      # inlined callee: (value, guards relative to the call) per return statement
        self._nobreak = {}
        self._pending_guards = []    # guards established by an inlined callee that can only return normally under them
        self._last_block_guards = ()
        self.params = [a.arg for a in func_node.args.posonlyargs + func_node.args.args + func_node.args.kwonlyargs]
        if func_node.args.vararg:
            self.params.append(func_node.args.vararg.arg)
        if func_node.args.kwarg:
            self.params.append(func_node.args.kwarg.arg)
        self.const_resolver = const_resolver
        self.local_names = self._assigned_names(func_node.body)
        env = dict((p, ("param", p)) for p in self.params)
        self._init_env = dict(init_env or {})
        if init_env is not None:
            env.update(init_env)
        self.exit_envs = []
        if parent is None:
            self.falls_through, self.env_end = self.block(func_node.body, env, (), ())

    def run_inlined(self, env_guards, env_loops):
        """evaluate the body as an inlined callee: events are appended to the caller's list under the caller's guards and
        loops; ``return`` statements do not end the caller -- their values are collected"""
        env = dict((p, ("param", p)) for p in self.params)
        env.update(self._init_env)
        n0 = len(env_guards)
        self._env_guard_len = n0
        self._env_loop_len = len(env_loops)
        self.falls_through, self.env_end = self.block(self.func.body, env, env_guards, env_loops)
        in_loop = any(x[2] for x in self.return_values)
        exits = [(x[0], x[1]) for x in self.return_values]
        if self.falls_through:
            exits.append((("const", None), tuple(self._last_block_guards[n0:])))
        if not exits:
            return ("const", None)
        if in_loop and len(exits) == 2 and len(self.return_values) >= 1:
            # ``for x in coll: if test(x): return x`` followed by ``return d``: the first element satisfying the test, else d -
            # next((x for x in coll if test(x)), d)
            found = [x for x in self.return_values if x[2]]
            other = [e for e in exits if e != (found[0][0], found[0][1])] if len(found) == 1 else []
            if len(found) == 1 and len(other) == 1 and not other[0][1] and len(found[0][3]) == 1 and len(found[0][1]) == 1 \
                    and found[0][1][0][1] is True:
                lid, coll = found[0][3][0]
                el = ("elem", coll, lid)
                if not contains(other[0][0], lambda y: y == el):
                    var = ("bound", "$0")
                    test = subst(found[0][1][0][0], lambda y: var if y == el else None)
                    val = subst(found[0][0], lambda y: var if y == el else None)
                    if not contains(("tuple", (test, val)), lambda y: y[0] in ("carried", "bound") and y != var
                                    or (y[0] == "elem" and y[2] == lid)):
                        gen = ("comp", "gen", val, ((("names", "$0"), coll, (test,)),))
                        return ("call", ("global", "next"), (gen, other[0][0]), ())
        # guards that hold on every normal exit hold in the caller after the call (``if bad: raise`` in a checking helper)
        common = [g for g in exits[0][1] if all(g in e[1] for e in exits[1:])]
        self.parent._pending_guards.extend(g for g in common if g not in self.parent._pending_guards)
        exits = [(v, tuple(g for g in gs if g not in common)) for v, gs in exits]
        return self._decision(exits, chain_ok=not in_loop)

    @classmethod
    def _decision(cls, exits, chain_ok=True):
        """the value of an inlined call as a decision tree over the guards of its return statements"""
        uniq = []
        for v, _ in exits:
            if v not in uniq:
                uniq.append(v)
        if len(uniq) == 1:
            return uniq[0]
        handled = [(v, gs) for v, gs in exits if gs and gs[0][0][0] == "exc" and gs[0][1] is True]
        if handled and len(handled) < len(exits):
            # a return inside an exception handler: taken when the exception occurred, the other exits when it did not
            exc = handled[0][1][0][0]
            idx = [i for i, (v, gs) in enumerate(exits) if gs and gs[0] == (exc, True)]
            # exits written before the handler's are the try body's (reached without the exception only); exits after it are the
            # common tail, reached either way
            pre = [e for e in exits[:idx[0]]]
            tail = [e for e in exits[idx[-1] + 1:]]
            mid_other = [e for i, e in enumerate(exits) if idx[0] < i < idx[-1] and i not in idx]
            yes = [(v, gs[1:]) for v, gs in handled if gs[0][0] == exc] + tail
            no = pre + tail
            if yes and no and not mid_other:
                return ("ifexp", exc, cls._decision(yes, chain_ok), cls._decision(no, chain_ok))
        first = exits[0][1]
        if first and all(gs and gs[0][0] == first[0][0] for _, gs in exits):
            test = first[0][0]
            yes = [(v, gs[1:]) for v, gs in exits if gs[0][1] is True]
            no = [(v, gs[1:]) for v, gs in exits if gs[0][1] is False]
            if yes and no:
                return ("ifexp", test, cls._decision(yes, chain_ok), cls._decision(no, chain_ok))
        if chain_ok and exits[0][1]:
            # structured, loop-free code: an exit is taken when its guards hold and no earlier exit was taken
            v, gs = exits[0]
            conds = tuple(t if pol else ("unary", "not", t) for t, pol in gs)
            cond = conds[0] if len(conds) == 1 else ("boolop", "and", conds)
            return ("ifexp", cond, v, cls._decision(exits[1:], chain_ok))
        return ("phi", tuple(uniq))

    # ---- helpers ------------------------------------------------------------------------------------
    @staticmethod
    def _assigned_names(stmts):
        names = set()

        def targets(t):
            if isinstance(t, ast.Name):
                names.add(t.id)
            elif isinstance(t, (ast.Tuple, ast.List)):
                for e in t.elts:
                    targets(e)
            elif isinstance(t, ast.Starred):
                targets(t.value)

        class V(ast.NodeVisitor):
            def visit_FunctionDef(self, node):
                names.add(node.name)

            def visit_Lambda(self, node):
                pass

            def visit_ClassDef(self, node):
                names.add(node.name)

            def visit_Assign(self, node):
                for t in node.targets:
                    targets(t)
                self.generic_visit(node)

            def visit_AugAssign(self, node):
                targets(node.target)
                self.generic_visit(node)

            def visit_AnnAssign(self, node):
                targets(node.target)
                self.generic_visit(node)

            def visit_For(self, node):
                targets(node.target)
                self.generic_visit(node)

            def visit_With(self, node):
                for it in node.items:
                    if it.optional_vars is not None:
                        targets(it.optional_vars)
                self.generic_visit(node)

            def visit_ExceptHandler(self, node):
                if node.name:
                    names.add(node.name)
                self.generic_visit(node)

            def visit_NamedExpr(self, node):
                targets(node.target)
                self.generic_visit(node)

            def visit_ListComp(self, node):
                pass
            visit_SetComp = visit_DictComp = visit_GeneratorExp = visit_ListComp

        v = V()
        for s in stmts:
            v.visit(s)
        return names

    @property
    def _seq(self):
        return self._counters["seq"]

    def _next(self, what):
        self._counters[what] += 1
        return self._counters[what]

    def emit(self, kind, target, value, guards, loops, node, extra=None):
        ev = Event(kind, target, value, guards, loops, node, self._next("seq"), extra)
        self.events.append(ev)
        return ev

    # ---- expressions --------------------------------------------------------------------------------
    def expr(self, node, env, guards, loops, bound=None):
        """translate an expression to a term; record call events in evaluation order"""
        E = lambda n: self.expr(n, env, guards, loops, bound)
        if node is None:
            return ("const", None)
        if isinstance(node, ast.Constant):
            return ("const", node.value)
        if isinstance(node, ast.Name):
            if bound and node.id in bound:
                return bound[node.id]
            if node.id in env:
                return env[node.id]
            if node.id in self.local_names:
                return ("undef", node.id)
            if node.id in ("True", "False", "None"):
                return ("const", {"True": True, "False": False, "None": None}[node.id])
            if self.const_resolver is not None and self.grename is None:
                # a module-level constant introduced after the pinned tree (a literal given a name): its value
                cv = self._simple_const(self.const_resolver(node.id))
                if cv is not None:
                    return cv
            gname = self.grename(node.id) if self.grename is not None else node.id
            if self.attr_renames and ("<global>" + gname) in self.attr_renames:
                gname = self.attr_renames["<global>" + gname]        # a known private function under a new name
            if self.gspell is not None:
                gname = self.gspell(gname)
            return ("global", gname)
        if isinstance(node, ast.Attribute):
            base = E(node.value)
            if base[0] == "global":
                gname = base[1] + "." + node.attr
                return ("global", self.gspell(gname) if self.gspell is not None else gname)
            if self.attr_renames and node.attr in self.attr_renames:
                return ("attr", base, self.attr_renames[node.attr])
            if base[0] == "obj" and isinstance(node.ctx, ast.Load):
                for a_, v_ in base[2]:
                    if a_ == node.attr:
                        return v_          # an attribute of a record of a constant table
            if self.self_consts is not None and base == ("param", self.self_consts[0]) and isinstance(node.ctx, ast.Load):
                cv = self.self_consts[1](node.attr)
                if cv is not None:
                    return cv
            if self.inliner is not None and self.depth < 2 and isinstance(node.ctx, ast.Load):
                # a property the rules do not know (introduced after the pinned tree): its body in place of the access
                tgt = self.inliner(("property", base, node.attr), [], ())
                if tgt is not None:
                    fn_node, binding, label = tgt[:3]
                    sub = Extractor(fn_node, const_resolver=self.const_resolver, inliner=self.inliner, parent=self, init_env=binding,
                                    depth=self.depth + 1, grename=(tgt[3] if len(tgt) > 3 else self.grename))
                    root = self
                    while root.parent is not None:
                        root = root.parent
                    root.inlined.append(label)
                    return sub.run_inlined(guards, loops)
            return ("attr", base, node.attr)
        if isinstance(node, ast.Subscript):
            base = E(node.value)
            sl = node.slice
            if isinstance(sl, ast.Slice):
                key = ("slice", E(sl.lower) if sl.lower else None, E(sl.upper) if sl.upper else None,
                       E(sl.step) if sl.step else None)
            else:
                key = E(sl)
            return ("sub", base, key)
        if isinstance(node, ast.Call):
            func = E(node.func)
            args = []
            for a in node.args:
                if isinstance(a, ast.Starred):
                    sv = E(a.value)
                    if sv[0] == "tuple" and not any(x[0] == "starred" for x in sv[1]):
                        args.extend(sv[1])          # f(*(a, b)) is f(a, b)
                    else:
                        args.append(("starred", sv))
                else:
                    args.append(E(a))
            kws = []
            for k in node.keywords:
                if k.arg is None:
                    spliced = self._splice_kwargs(k.value, E)
                    if spliced is not None:
                        kws.extend(spliced)       # f(**{"a": 1}) / f(**OPTIONS) with a constant table is f(a=1)
                        continue
                kws.append((k.arg or "**", E(k.value)))
            if kws and self.sigs is not None and not any(a[0] == "starred" for a in args) and not any(k_ == "**" for k_, _ in kws):
                # arguments of the package's own functions in one spelling: by position where the signature allows it
                params = self.sigs(func)
                if params:
                    given = dict(kws)
                    while len(args) < len(params) and params[len(args)] in given:
                        args.append(given.pop(params[len(args)]))
                    kws = [(k_, v_) for k_, v_ in kws if k_ in given]
            kws = tuple(kws)
            if func[0] == "lambda" and not args and not kws and func[1].startswith("lambda:"):
                try:
                    lam = ast.parse(func[1], mode="eval").body
                    return self.expr(lam.body, {}, guards, loops, bound)      # a default factory: what it returns
                except SyntaxError:
                    pass
            if func[0] == "ifexp" and not bound:
                # the callee was chosen before (a handler picked by a helper): each alternative is called under the condition
                # it was chosen under
                def call_tree(fn_t, gs):
                    if fn_t[0] == "ifexp":
                        return ("ifexp", fn_t[1], call_tree(fn_t[2], gs + ((fn_t[1], True),)), call_tree(fn_t[3], gs + ((fn_t[1], False),)))
                    ct = ("call", fn_t, tuple(args), kws)
                    self.emit("call", None, ct, gs, loops, node)
                    return ct
                return call_tree(func, guards)
            t = ("call", func, tuple(args), kws)
            if func == ("global", "getattr") and len(args) == 2 and not kws and args[1][0] == "const" and isinstance(args[1][1], str):
                return ("attr", args[0], args[1][1])      # getattr(x, "name") is x.name
            if func == ("global", "getattr") and len(args) == 3 and not kws and args[0][0] == "global" and args[1][0] == "const" \
                    and isinstance(args[1][1], str) and args[0][1].split(".")[0] in _STDLIB_ROOTS:
                # getattr(os, "fspath", None): a standard-library attribute that exists on every supported interpreter
                return ("global", args[0][1] + "." + args[1][1])
            if func == ("global", "setattr") and len(args) == 3 and not kws and args[1][0] == "const" and isinstance(args[1][1], str) \
                    and not bound:
                # setattr(x, "name", v) is x.name = v
                self.emit("store", ("attr", args[0], args[1][1]), args[2], guards, loops, node)
                return ("const", None)
            if self.inliner is not None and self.depth < 2:
                tgt = self.inliner(func, args, kws)
                if tgt is not None:
                    fn_node, binding, label = tgt[:3]
                    sub = Extractor(fn_node, const_resolver=self.const_resolver, inliner=self.inliner, parent=self, init_env=binding,
                                    depth=self.depth + 1, grename=(tgt[3] if len(tgt) > 3 else self.grename))
                    root = self
                    while root.parent is not None:
                        root = root.parent
                    root.inlined.append(label)
                    return sub.run_inlined(guards, loops)
            if not bound:
                self.emit("call", None, t, guards, loops, node)
            else:
                self.emit("call", None, t, guards, loops, node, extra="in-comprehension")
            return t
        if isinstance(node, ast.BinOp):
            return ("binop", OPS.get(type(node.op), "?"), E(node.left), E(node.right))
        if isinstance(node, ast.UnaryOp):
            return ("unary", UNARY.get(type(node.op), "?"), E(node.operand))
        if isinstance(node, ast.BoolOp):
            return ("boolop", "and" if isinstance(node.op, ast.And) else "or", tuple(E(v) for v in node.values))
        if isinstance(node, ast.Compare):
            return ("cmp", tuple(CMPS.get(type(o), "?") for o in node.ops),
                    tuple([E(node.left)] + [E(c) for c in node.comparators]))
        if isinstance(node, ast.Tuple):
            return ("tuple", tuple(E(e) for e in node.elts))
        if isinstance(node, ast.List):
            return ("list", tuple(E(e) for e in node.elts))
        if isinstance(node, ast.Set):
            return ("set", tuple(E(e) for e in node.elts))
        if isinstance(node, ast.Dict):
            return ("dict", tuple((E(k) if k is not None else ("const", "**"), E(v)) for k, v in zip(node.keys, node.values)))
        if isinstance(node, ast.IfExp):
            test = E(node.test)
            if bound:
                return ("ifexp", test, E(node.body), E(node.orelse))
            # what an alternative calls happens only when that alternative is chosen
            bt = bool_form(test)
            return ("ifexp", test, self.expr(node.body, env, guards + ((bt, True),), loops, bound),
                    self.expr(node.orelse, env, guards + ((bt, False),), loops, bound))
        if isinstance(node, (ast.ListComp, ast.SetComp, ast.GeneratorExp, ast.DictComp)):
            # bound variables are renamed positionally ($0, $1 ..: one per generator, the element drawn), so that the spelling
            # of comprehension variables does not matter; tuple targets become components of the element
            b = dict(bound or {})
            gens = []
            g0 = node.generators[0]
            if len(node.generators) == 1 and isinstance(g0.iter, ast.Name) and g0.iter.id not in env \
                    and g0.iter.id not in self.local_names and g0.iter.id not in b:
                rows = self._table_rows(g0.iter.id)
                if rows is not None and g0.ifs:
                    # a filter over the table's own columns: the rows it keeps (anything else: not written out)
                    kept = []
                    for row in rows:
                        rb0 = dict(b)

                        def bind_row0(t, v):
                            if isinstance(t, ast.Name):
                                rb0[t.id] = v
                            elif isinstance(t, (ast.Tuple, ast.List)):
                                for i, e in enumerate(t.elts):
                                    bind_row0(e, v[1][i] if v[0] == "tuple" and len(v[1]) == len(t.elts) else ("idx", v, i))
                        bind_row0(g0.target, row)
                        n_ev = len(self.events)
                        vals_ = [canon(self.expr(c, env, guards, loops, rb0)) for c in g0.ifs]
                        del self.events[n_ev:]
                        if not all(v_[0] == "const" for v_ in vals_):
                            kept = None
                            break
                        if all(bool(v_[1]) for v_ in vals_):
                            kept.append(row)
                    rows = kept
                if rows is not None:
                    # a comprehension over a module-level table introduced after the pinned tree: its elements written out
                    out = []
                    for row in rows:
                        rb = dict(b)

                        def bind_row(t, v):
                            if isinstance(t, ast.Name):
                                rb[t.id] = v
                            elif isinstance(t, (ast.Tuple, ast.List)):
                                for i, e in enumerate(t.elts):
                                    bind_row(e, v[1][i] if v[0] == "tuple" and len(v[1]) == len(t.elts) else ("idx", v, i))
                        bind_row(g0.target, row)
                        if isinstance(node, ast.DictComp):
                            out.append((self.expr(node.key, env, guards, loops, rb), self.expr(node.value, env, guards, loops, rb)))
                        else:
                            out.append(self.expr(node.elt, env, guards, loops, rb))
                    if isinstance(node, ast.DictComp):
                        return ("dict", tuple(out))
                    return ("set" if isinstance(node, ast.SetComp) else "list", tuple(out))
            for g in node.generators:
                it = self.expr(g.iter, env, guards, loops, b)
                kind, it, d = dict_iter(it)
                var = ("bound", "$%d" % len(set(v for v in b.values() if v[0] == "bound") | set(
                    x for v in b.values() for x in walk(v) if x[0] == "bound")))
                el = var
                if kind == "values":
                    el = ("sub", d, var)
                elif kind == "items":
                    el = ("tuple", (var, ("sub", d, var)))

                def bind_names(t, v):
                    if isinstance(t, ast.Name):
                        b[t.id] = v
                    elif isinstance(t, (ast.Tuple, ast.List)):
                        for i, e in enumerate(t.elts):
                            if v[0] == "tuple" and len(v[1]) == len(t.elts):
                                bind_names(e, v[1][i])
                            else:
                                bind_names(e, ("idx", v, i))
                    elif isinstance(t, ast.Starred):
                        bind_names(t.value, ("unknown", "starred-rest"))
                bind_names(g.target, el)
                conds = tuple(self.expr(c, env, guards, loops, b) for c in g.ifs)
                gens.append((("names", var[1]), it, conds))
            if isinstance(node, ast.DictComp):
                elt = ("tuple", (self.expr(node.key, env, guards, loops, b), self.expr(node.value, env, guards, loops, b)))
                kind = "dict"
            else:
                elt = self.expr(node.elt, env, guards, loops, b)
                kind = {ast.ListComp: "list", ast.SetComp: "set", ast.GeneratorExp: "gen"}[type(node)]
            return ("comp", kind, elt, tuple(gens))
        if isinstance(node, ast.Lambda):
            if self.const_resolver is not None and self.grename is None:
                # module-level constants inside the lambda: their values (``lambda x: x[_KEY]`` is ``lambda x: x["path"]``)
                import copy as _copy
                own = set(a.arg for a in node.args.args + node.args.kwonlyargs) | set(env) | set(self.local_names)
                ex_ = self

                class Fill(ast.NodeTransformer):
                    def visit_Name(self_, n):
                        if isinstance(n.ctx, ast.Load) and n.id not in own:
                            cv = ex_._simple_const(ex_.const_resolver(n.id))
                            if cv is not None and cv[0] == "const" and isinstance(cv[1], (str, int, bool, type(None))):
                                return ast.copy_location(ast.Constant(value=cv[1]), n)
                        return n
                node = Fill().visit(_copy.deepcopy(node))
            return ("lambda", ast.unparse(node))
        if isinstance(node, ast.Starred):
            return ("starred", E(node.value))
        if isinstance(node, ast.JoinedStr):
            return ("fstr", tuple(E(v) for v in node.values))
        if isinstance(node, ast.FormattedValue):
            return E(node.value)
        if isinstance(node, ast.NamedExpr):
            v = E(node.value)
            env[node.target.id] = v
            return v
        if isinstance(node, ast.Yield):
            v = E(node.value) if node.value else ("const", None)
            if self._yield_to is not None:
                # the generator is being run in place of ``for <target> in gen(...): <body>``: the body, here
                for_stmt, caller_env = self._yield_to
                self.parent.bind(for_stmt.target, v, caller_env, guards, loops, for_stmt)
                self.parent.block(for_stmt.body, caller_env, guards, loops)
                return ("const", None)
            self.emit("yield", None, v, guards, loops, node)
            return ("unknown", "yield")
        return ("unknown", type(node).__name__)

    # ---- statements ---------------------------------------------------------------------------------
    def _fresh(self, value):
        """a freshly allocated mutable container: give it an identity so later mutations can be related to it"""
        k = value[0]
        if k in ("dict", "list", "set"):
            return True
        if k == "comp" and value[1] in ("list", "set", "dict"):
            return True
        if k == "call" and value[1][0] == "global" and value[1][1] in ("set", "list", "dict"):
            return True
        return False

    def bind(self, target, value, env, guards, loops, node):
        if isinstance(target, ast.Name):
            if self._fresh(value):
                aid = self._next("alloc")
                value = ("local", target.id, aid, value)
                self.locals_alloc[(target.id, aid)] = value
            env[target.id] = value
            self.emit("bind", ("bound", target.id), value, guards, loops, node)
        elif isinstance(target, (ast.Tuple, ast.List)):
            if value[0] in ("tuple", "list") and len(value[1]) == len(target.elts):
                for t, v in zip(target.elts, value[1]):
                    self.bind(t, v, env, guards, loops, node)
            else:
                for i, t in enumerate(target.elts):
                    self.bind(t, ("idx", value, i), env, guards, loops, node)
        elif isinstance(target, ast.Attribute):
            tt = ("attr", self.expr(target.value, env, guards, loops), target.attr)
            self.emit("store", tt, value, guards, loops, node)
        elif isinstance(target, ast.Subscript):
            tt = self.expr(target, env, guards, loops)
            self.emit("store", tt, value, guards, loops, node)
        elif isinstance(target, ast.Starred):
            self.bind(target.value, ("unknown", "starred-rest"), env, guards, loops, node)

    @staticmethod
    def merge(envs):
        """phi-merge a list of environments"""
        envs = [e for e in envs if e is not None]
        if not envs:
            return None
        if len(envs) == 1:
            return dict(envs[0])
        out = {}
        names = set()
        for e in envs:
            names |= set(e)
        for n in names:
            vals = []
            for e in envs:
                v = e.get(n, ("undef", n))
                # flatten nested phis
                vs = v[1] if v[0] == "phi" else (v,)
                for x in vs:
                    if x not in vals:
                        vals.append(x)
            out[n] = vals[0] if len(vals) == 1 else ("phi", tuple(vals))
        return out

    def _literal_elements(self, s, env, guards, loops):
        """the rows of a ``for`` loop over a literal list/tuple/dict (written in place, or a never-mutated local bound to one):
        a list of terms, or None.  Not unrolled: loops with break/continue, more than 12 rows, non-literal iterables."""
        if self._jumps_of(s.body):
            return None
        node = s.iter
        kind = None
        if isinstance(node, ast.Call) and isinstance(node.func, ast.Attribute) and not node.args and not node.keywords \
                and node.func.attr in _KEYS + _VALUES + _ITEMS:
            kind = "keys" if node.func.attr in _KEYS else "values" if node.func.attr in _VALUES else "items"
            node = node.func.value
        lit = None
        if isinstance(node, ast.Attribute) and kind is None and self.self_consts is not None and isinstance(node.value, ast.Name) \
                and env.get(node.value.id) == ("param", self.self_consts[0]):
            # for x in self.<class-level tuple>: a declarative field list
            cv = self.self_consts[1](node.attr)
            if cv is not None and cv[0] in ("tuple", "list") and 0 < len(cv[1]) <= 16:
                return list(cv[1])
            return None
        if isinstance(node, (ast.List, ast.Tuple)) and kind is None:
            lit = node
        elif isinstance(node, ast.Dict):
            lit = node
        elif isinstance(node, ast.Name) and node.id in env and (node.id not in self.params or node.id in self._init_env):
            v = env[node.id]
            if v[0] == "tuple" and kind is None:
                rows = list(v[1])
                if any(r[0] == "starred" for r in rows) or len(rows) > 12 or not rows:
                    return None
                return rows
            if v[0] == "local" and v[3][0] in ("list", "tuple", "dict"):
                # the local must not have been touched since its creation - except, for a dict, by ``d[<literal>] = value``
                # stores of new keys (a dict filled step by step, some entries only under a condition)
                added = []
                for ev in self.events:
                    for t in (ev.value, ev.target):
                        if t is not None and ev.kind in ("call", "store", "del") and contains(t, lambda x: x[0] == "local" and x[1:3] == v[1:3]) \
                                and not (ev.kind == "bind"):
                            if ev.kind == "store" and v[3][0] == "dict" and t is ev.target and ev.target[0] == "sub" \
                                    and ev.target[1][0] == "local" and ev.target[1][1:3] == v[1:3] and ev.target[2][0] == "const" \
                                    and not contains(ev.value, lambda x: x[0] == "local" and x[1:3] == v[1:3]) \
                                    and tuple(ev.loops) == tuple(loops) and tuple(ev.guards[:len(guards)]) == tuple(guards) \
                                    and ev.target[2] not in [k for k, _ in v[3][1]] and ev.target[2] not in [a_[0] for a_ in added]:
                                added.append((ev.target[2], ev.value, tuple(ev.guards[len(guards):])))
                                continue
                            return None
                init = v[3]
                if init[0] == "dict" and added:
                    pairs = [(k, x, ()) for k, x in init[1]] + added
                    mk = {"keys": lambda k, x: k, None: lambda k, x: k, "values": lambda k, x: x, "items": lambda k, x: ("tuple", (k, x))}[kind]
                    rows = [mk(k, x) if not g_ else ("guarded", g_, mk(k, x)) for k, x, g_ in pairs]
                    if len(rows) > 16 or not rows:
                        return None
                    return rows
                if init[0] == "dict":
                    rows = {"keys": [k for k, _ in init[1]], "values": [x for _, x in init[1]],
                            "items": [("tuple", (k, x)) for k, x in init[1]], None: [k for k, _ in init[1]]}[kind]
                elif kind is None:
                    rows = list(init[1])
                else:
                    return None
                if any(r[0] == "starred" for r in rows) or len(rows) > 12 or not rows:
                    return None
                return rows
            return None
        if lit is None and isinstance(node, ast.Name) and kind is None and node.id not in env and node.id not in self.local_names \
                and self.const_resolver is not None:
            # a module-level table introduced after the pinned tree (to drive a loop): its rows written out.  The resolver
            # answers only for such tables
            return self._table_rows(node.id)
        if lit is None:
            return None
        t = self.expr(lit, env, guards, loops)
        if t[0] == "dict":
            if any(k == ("const", "**") for k, _ in t[1]):
                return None
            rows = {"keys": [k for k, _ in t[1]], "values": [x for _, x in t[1]],
                    "items": [("tuple", (k, x)) for k, x in t[1]], None: [k for k, _ in t[1]]}[kind]
        else:
            rows = list(t[1])
        if any(r[0] == "starred" for r in rows) or len(rows) > 12 or not rows:
            return None
        return rows

    def _splice_kwargs(self, node, E):
        if isinstance(node, ast.Name) and self.const_resolver is not None and node.id not in self.local_names and self.grename is None:
            v = self.const_resolver(node.id)
            if isinstance(v, dict) and v and all(isinstance(k, str) for k in v):
                out = []
                for k, x in v.items():
                    t = self._simple_const(x) if x is not None else ("const", None)
                    if t is None:
                        return None
                    out.append((k, t))
                return out
            return None
        if isinstance(node, ast.Dict) and all(isinstance(k, ast.Constant) and isinstance(k.value, str) for k in node.keys):
            return [(k.value, E(v)) for k, v in zip(node.keys, node.values)]
        return None

    @staticmethod
    def _simple_const(v):
        simple = (str, int, float, bool, type(None))
        if v is None:
            return None          # (the resolver's "not one of those")
        if isinstance(v, simple):
            return ("const", v)
        if isinstance(v, (tuple, list)) and v and all(isinstance(x, simple) for x in v) and len(v) <= 16:
            return ("tuple" if isinstance(v, tuple) else "list", tuple(("const", x) for x in v))
        return None

    def _table_rows(self, name):
        """the rows of a module-level table introduced after the pinned tree, as terms (or None): strings, numbers, None, type
        objects and tuples of them, at most 16 rows"""
        if self.const_resolver is None:
            return None
        v = self.const_resolver(name)

        def simple(x):
            return isinstance(x, (str, int, float, bool, type(None))) or type(x).__name__ in ("TypeMarker", "LambdaConst") \
                or (isinstance(x, tuple) and all(simple(y) for y in x)) \
                or (type(x).__name__ == "ObjConst" and all(simple(y) for y in x.attrs.values()))

        def term(x):
            if isinstance(x, tuple):
                if x and all(isinstance(y, (str, int, float, bool, type(None))) for y in x):
                    return ("tuple", tuple(("const", y) for y in x))
                return ("tuple", tuple(term(y) for y in x))
            if type(x).__name__ == "TypeMarker":
                return ("global", x.name)
            if type(x).__name__ == "LambdaConst":
                return ("lambda", x.src)
            if type(x).__name__ == "ObjConst":
                return ("obj", x.qname, tuple(sorted((k, term(v)) for k, v in x.attrs.items())))
            return ("const", x)
        if isinstance(v, (list, tuple)) and 0 < len(v) <= 16 and all(simple(x) for x in v):
            return [term(x) for x in v]
        return None

    def _fresh_each_iteration(self, s):
        """every name the loop body assigns (besides the loop target) is written before it is read, in evaluation order, on the
        way through the body: no value is carried from one iteration to the next"""
        names = self._assigned_names(s.body) - self._assigned_names([ast.Assign(targets=[s.target], value=ast.Constant(None))])

        def occurrences(node):
            """Name nodes in evaluation order (the value of an assignment before its targets)"""
            if isinstance(node, ast.Assign):
                for x in occurrences(node.value):
                    yield x
                for t in node.targets:
                    for x in occurrences(t):
                        yield x
                return
            if isinstance(node, ast.AugAssign):
                for x in occurrences(node.value):
                    yield x
                for x in occurrences(node.target):
                    yield ast.Name(id=x.id, ctx=ast.Load()) if isinstance(x, ast.Name) else x
                return
            if isinstance(node, ast.Name):
                yield node
                return
            for c in ast.iter_child_nodes(node):
                for x in occurrences(c):
                    yield x
        for n in names:
            first = None
            for st in s.body:
                for x in occurrences(st):
                    if x.id == n:
                        first = x
                        break
                if first is not None:
                    break
            if first is None or not isinstance(first.ctx, ast.Store):
                return False
        return True

    @classmethod
    def _without_continue(cls, stmts):
        """``if c: continue`` guard clauses at the top level of a loop body turned into ``if not c: <rest>``; None if the body jumps
        in any other way"""
        for i, st in enumerate(stmts):
            if isinstance(st, ast.If) and not st.orelse and st.body and isinstance(st.body[-1], ast.Continue) \
                    and not cls._jumps_of(st.body[:-1]):
                rest = cls._without_continue(stmts[i + 1:])
                if rest is None:
                    return None
                neg = ast.copy_location(ast.UnaryOp(op=ast.Not(), operand=st.test), st.test)
                out = list(stmts[:i])
                if st.body[:-1]:
                    out.append(ast.copy_location(ast.If(test=st.test, body=st.body[:-1], orelse=rest or [ast.Pass()]), st))
                elif rest:
                    out.append(ast.copy_location(ast.If(test=neg, body=rest, orelse=[]), st))
                for n in out:
                    ast.fix_missing_locations(n)
                return out
            if cls._jumps_of([st]):
                return None
        return list(stmts)

    @staticmethod
    def _jumps_of(stmts):
        """break/continue statements belonging to the loop whose body is ``stmts``"""
        def rec(ss):
            for x in ss:
                if isinstance(x, (ast.Break, ast.Continue)):
                    return True
                if isinstance(x, (ast.For, ast.While, ast.FunctionDef, ast.ClassDef, ast.AsyncFor)):
                    continue
                for fld in ("body", "orelse", "finalbody"):
                    if rec(getattr(x, fld, []) or []):
                        return True
                for h in getattr(x, "handlers", []) or []:
                    if rec(h.body):
                        return True
            return False
        return rec(stmts)

    @staticmethod
    def _breaks_of(stmts):
        """does the loop body contain a ``break`` that belongs to this loop?"""
        def rec(ss):
            for x in ss:
                if isinstance(x, ast.Break):
                    return True
                if isinstance(x, (ast.For, ast.While, ast.FunctionDef, ast.ClassDef, ast.AsyncFor)):
                    if isinstance(x, (ast.For, ast.While)) and rec(x.orelse):
                        return True
                    continue
                for fld in ("body", "orelse", "finalbody"):
                    if rec(getattr(x, fld, []) or []):
                        return True
                for h in getattr(x, "handlers", []) or []:
                    if rec(h.body):
                        return True
            return False
        return rec(stmts)

    @staticmethod
    def merge_gated(test, env_a, env_b):
        """merge after ``if test: <a> else: <b>`` keeping which value belongs to which outcome"""
        out = {}
        for n in set(env_a) | set(env_b):
            a = env_a.get(n, ("undef", n))
            b = env_b.get(n, ("undef", n))
            out[n] = a if a == b else ("gate", test, a, b)
        return out

    def _drain(self, guards):
        pend, self._pending_guards[:] = tuple(g for g in self._pending_guards if g not in guards), []
        return pend

    @classmethod
    def _fold_collecting_loops(cls, stmts):
        """``x = []`` directly followed by ``for t in it: [if c:] x.append(e)`` (nothing else in the loop; likewise a set filled with
        add, a dict filled by ``x[k] = v``) is ``x = [e for t in it if c]``"""
        out = []
        i = 0
        while i < len(stmts):
            s = stmts[i]
            nxt = stmts[i + 1] if i + 1 < len(stmts) else None
            folded = None
            if isinstance(s, ast.Assign) and len(s.targets) == 1 and isinstance(s.targets[0], ast.Name) and isinstance(nxt, ast.For) \
                    and not nxt.orelse and len(nxt.body) == 1:
                name = s.targets[0].id
                v = s.value
                kind = None
                if isinstance(v, ast.List) and not v.elts:
                    kind = "list"
                elif isinstance(v, ast.Dict) and not v.keys:
                    kind = "dict"
                elif isinstance(v, ast.Call) and isinstance(v.func, ast.Name) and v.func.id in ("list", "set", "dict") and not v.args \
                        and not v.keywords:
                    kind = v.func.id
                inner = nxt.body[0]
                ifs = []
                while isinstance(inner, ast.If) and not inner.orelse and len(inner.body) == 1:
                    ifs.append(inner.test)
                    inner = inner.body[0]
                elt = None
                if kind in ("list", "set") and isinstance(inner, ast.Expr) and isinstance(inner.value, ast.Call) \
                        and isinstance(inner.value.func, ast.Attribute) and isinstance(inner.value.func.value, ast.Name) \
                        and inner.value.func.value.id == name and inner.value.func.attr == ("append" if kind == "list" else "add") \
                        and len(inner.value.args) == 1 and not inner.value.keywords and not isinstance(inner.value.args[0], ast.Starred):
                    elt = (inner.value.args[0],)
                elif kind == "dict" and isinstance(inner, ast.Assign) and len(inner.targets) == 1 and isinstance(inner.targets[0], ast.Subscript) \
                        and isinstance(inner.targets[0].value, ast.Name) and inner.targets[0].value.id == name \
                        and not isinstance(inner.targets[0].slice, ast.Slice):
                    elt = (inner.targets[0].slice, inner.value)
                if elt is not None:
                    used = set(n.id for part in list(elt) + ifs + [nxt.iter, nxt.target] for n in ast.walk(part) if isinstance(n, ast.Name))
                    jumps = any(isinstance(n, (ast.Yield, ast.YieldFrom, ast.Await, ast.NamedExpr)) for part in list(elt) + ifs for n in ast.walk(part))
                    tnames = set(n.id for n in ast.walk(nxt.target) if isinstance(n, ast.Name))
                    later = set(n.id for st in stmts[i + 2:] for n in ast.walk(st) if isinstance(n, ast.Name) and isinstance(n.ctx, ast.Load))
                    # (a loop variable read after the loop keeps its last value: not so after a comprehension)
                    if name not in used and not jumps and not (tnames & later):
                        gen = ast.comprehension(target=nxt.target, iter=nxt.iter, ifs=ifs, is_async=0)
                        if kind == "list":
                            comp = ast.ListComp(elt=elt[0], generators=[gen])
                        elif kind == "set":
                            comp = ast.SetComp(elt=elt[0], generators=[gen])
                        else:
                            comp = ast.DictComp(key=elt[0], value=elt[1], generators=[gen])
                        folded = ast.copy_location(ast.Assign(targets=[s.targets[0]], value=ast.copy_location(comp, nxt), type_comment=None), nxt)
                        ast.fix_missing_locations(folded)
            if folded is not None:
                out.append(folded)
                i += 2
            else:
                out.append(s)
                i += 1
        return out

    def block(self, stmts, env, guards, loops):
        """-> (falls_through: bool, env at the end or None).  ``env`` is mutated/replaced as we go."""
        env = dict(env)
        stmts = self._fold_collecting_loops(stmts)
        for s in stmts:
            ft, env2, extra_guards = self.stmt(s, env, guards, loops)
            pend, self._pending_guards[:] = tuple(self._pending_guards), []
            if not ft:
                return False, None
            env = env2
            guards = guards + extra_guards + tuple(g for g in pend if g not in guards)
        self._last_block_guards = guards
        return True, env

    def stmt(self, s, env, guards, loops):
        """-> (falls_through, env_after, guards_added_for_the_rest_of_the_block)"""
        E = lambda n: self.expr(n, env, guards, loops)
        if isinstance(s, ast.If) and len(s.body) == 1 and len(s.orelse) == 1 and isinstance(s.body[0], ast.Assign) \
                and isinstance(s.orelse[0], ast.Assign) and len(s.body[0].targets) == 1 and len(s.orelse[0].targets) == 1 \
                and isinstance(s.body[0].targets[0], ast.Name) and isinstance(s.orelse[0].targets[0], ast.Name) \
                and s.body[0].targets[0].id == s.orelse[0].targets[0].id:
            # ``if c: x = a / else: x = b`` on a local name is ``x = a if c else b``
            s = ast.copy_location(ast.Assign(targets=[s.body[0].targets[0]], type_comment=None, value=ast.copy_location(
                ast.IfExp(test=s.test, body=s.body[0].value, orelse=s.orelse[0].value), s)), s)
        if isinstance(s, ast.If) and not s.orelse and len(s.body) == 1 and isinstance(s.body[0], ast.If) and not s.body[0].orelse:
            # ``if a: if b: body`` is ``if a and b: body``
            vals = []
            inner = s
            while isinstance(inner, ast.If) and not inner.orelse and len(inner.body) == 1 and isinstance(inner.body[0], ast.If) \
                    and not inner.body[0].orelse:
                vals.extend(inner.test.values if isinstance(inner.test, ast.BoolOp) and isinstance(inner.test.op, ast.And) else [inner.test])
                inner = inner.body[0]
            vals.extend(inner.test.values if isinstance(inner.test, ast.BoolOp) and isinstance(inner.test.op, ast.And) else [inner.test])
            s = ast.copy_location(ast.If(test=ast.copy_location(ast.BoolOp(op=ast.And(), values=vals), s.test), body=inner.body, orelse=[]), s)
        if isinstance(s, ast.Expr):
            E(s.value)
            return True, env, ()
        if isinstance(s, ast.Assign):
            v = E(s.value)
            if len(s.targets) > 1 and self._fresh(v):
                # a = b[k] = {}   : one object, give it one identity
                names = [t.id for t in s.targets if isinstance(t, ast.Name)]
                if names:
                    aid = self._next("alloc")
                    v = ("local", names[0], aid, v)
                    self.locals_alloc[(names[0], aid)] = v
            for t in s.targets:
                self.bind(t, v, env, guards, loops, s)
            return True, env, ()
        if isinstance(s, ast.AnnAssign):
            if s.value is not None:
                self.bind(s.target, E(s.value), env, guards, loops, s)
            return True, env, ()
        if isinstance(s, ast.AugAssign):
            cur = E(s.target) if not isinstance(s.target, ast.Name) else env.get(s.target.id, ("undef", s.target.id))
            v = ("binop", OPS.get(type(s.op), "?"), cur, E(s.value))
            if isinstance(s.target, ast.Name):
                # x |= y on a name bound to an object reachable from a parameter mutates that object in place
                # (sets, lists, dicts); record it as a store into the aliased object
                if cur[0] in ("attr", "sub", "elem", "idx") and root_of(cur) is not None and root_of(cur)[0] == "param" \
                        and isinstance(s.op, (ast.BitOr, ast.BitAnd, ast.Sub, ast.BitXor, ast.Add, ast.Mult)):
                    self.emit("store", cur, v, guards, loops, s, extra="aug-inplace")
                env[s.target.id] = v
                self.emit("bind", ("bound", s.target.id), v, guards, loops, s, extra="aug")
            else:
                self.emit("store", E(s.target), v, guards, loops, s, extra="aug")
            return True, env, ()
        if isinstance(s, ast.Return):
            v = E(s.value) if s.value is not None else ("const", None)
            if self.parent is not None:
                # inlined callee: not a return of the function under analysis; the value is bound, under the guards of the
                # return statement, exactly as an assignment to a result variable would be
                self.return_values.append((v, tuple(guards[self._env_guard_len:]), len(loops) > self._env_loop_len,
                                           tuple(loops[self._env_loop_len:])))
                self.emit("bind", ("bound", "<return of %s>" % self.func.name), v, guards, loops, s, extra="inlined-return")
                return False, None, ()
            self.emit("return", None, v, guards, loops, s)
            self.exit_envs.append(dict(env))
            return False, None, ()
        if isinstance(s, ast.Raise):
            v = E(s.exc) if s.exc is not None else ("exc", "<reraise>")
            self.emit("raise", None, v, guards, loops, s)
            return False, None, ()
        if isinstance(s, ast.Delete):
            for t in s.targets:
                if isinstance(t, ast.Name):
                    env.pop(t.id, None)
                else:
                    self.emit("del", E(t), None, guards, loops, s)
            return True, env, ()
        if isinstance(s, (ast.Pass, ast.Import, ast.ImportFrom, ast.Global, ast.Nonlocal)):
            return True, env, ()
        if isinstance(s, (ast.FunctionDef, ast.ClassDef)):
            env[s.name] = ("lambda", "def %s" % s.name)
            return True, env, ()
        if isinstance(s, (ast.Break, ast.Continue)):
            if isinstance(s, ast.Break) and loops and loops[-1][0] in self._nobreak:
                env = dict(env)
                env[self._nobreak[loops[-1][0]]] = ("const", False)
                self.emit("bind", ("bound", self._nobreak[loops[-1][0]]), ("const", False), guards, loops, s, extra="nobreak-flag")
            self.emit("break" if isinstance(s, ast.Break) else "continue", None, None, guards, loops, s)
            if loops:
                self._exit_envs.setdefault(loops[-1][0], []).append(dict(env))
            return False, None, ()
        if isinstance(s, ast.Assert):
            E(s.test)
            return True, env, ()
        if isinstance(s, ast.If):
            test = bool_form(E(s.test))
            pg = self._drain(guards)
            guards = guards + pg
            ft_a, env_a = self.block(s.body, env, guards + ((test, True),), loops)
            # conditions a branch picked up on the way (the negations of its own early exits): they hold for what follows too
            ga = tuple(self._last_block_guards[len(guards) + 1:]) if ft_a else ()
            ft_b, env_b = self.block(s.orelse, env, guards + ((test, False),), loops)
            gb = tuple(self._last_block_guards[len(guards) + 1:]) if ft_b and s.orelse else ()

            def left_by(cond_t, cond_pol, gs):
                """the rest of the block is not reached when the branch was taken and one of its exits fired: not (<branch> and
                not (<all of gs>))"""
                items = tuple(g[0] if not g[1] else ("unary", "not", g[0]) for g in gs)      # negations of gs
                fired = items[0] if len(items) == 1 else ("boolop", "or", items)
                branch = cond_t if cond_pol else ("unary", "not", cond_t)
                parts = ()
                for x in (branch, fired):
                    parts += x[2] if x[0] == "boolop" and x[1] == "and" else (x,)
                return (("boolop", "and", parts), False)
            if ft_a and ft_b:
                extra = ()
                if ga:
                    extra += (left_by(test, True, ga),)
                if gb:
                    extra += (left_by(test, False, gb),)
                return True, self.merge_gated(test, env_a, env_b), pg + extra
            if ft_a:
                return True, env_a, pg + ((test, True),) + ga
            if ft_b:
                return True, env_b, pg + ((test, False),) + gb
            return False, None, ()
        if isinstance(s, ast.For) and not s.orelse and self._jumps_of(s.body) and not self._breaks_of(s.body):
            # a loop whose only jumps are ``if c: continue`` guard clauses at the top level of its body: the same loop with the rest
            # of the body under ``if not c`` (so that a loop over a literal table can still be written out)
            flat = self._without_continue(s.body)
            if flat is not None:
                s = ast.copy_location(ast.For(target=s.target, iter=s.iter, body=flat, orelse=[], type_comment=None), s)
        if isinstance(s, (ast.For, ast.While)):
            if isinstance(s, ast.For) and not s.orelse and isinstance(s.iter, ast.Call) and self.inliner is not None and self.depth < 2 \
                    and not any(isinstance(a, ast.Starred) for a in s.iter.args) and not self._jumps_of(s.body) \
                    and not any(isinstance(n, ast.Return) for x in s.body for n in ast.walk(x)) \
                    and self._fresh_each_iteration(s):
                # ``for x in helper(...)`` where helper is a generator the rules do not know: the helper's body with the loop
                # body in place of every yield
                n_ev, counters = len(self.events), dict(self._counters)
                func = E(s.iter.func)
                args = [E(a) for a in s.iter.args]
                kws = tuple((k.arg or "**", E(k.value)) for k in s.iter.keywords)
                tgt = self.inliner(("generator", func), args, kws)
                if tgt is not None:
                    fn_node, binding, label = tgt[:3]
                    sub = Extractor(fn_node, const_resolver=self.const_resolver, inliner=self.inliner, parent=self, init_env=binding,
                                    depth=self.depth + 1, grename=(tgt[3] if len(tgt) > 3 else self.grename))
                    env = dict(env)
                    sub._yield_to = (s, env)
                    root = self
                    while root.parent is not None:
                        root = root.parent
                    root.inlined.append(label)
                    sub.run_inlined(guards, loops)
                    return True, env, ()
                del self.events[n_ev:]
                self._counters.clear()
                self._counters.update(counters)
            if isinstance(s, ast.For) and not s.orelse:
                elems = self._literal_elements(s, env, guards, loops)
                if elems is not None:
                    # a loop over a literal table is the table's rows written out: unroll it (table-driven and explicit code
                    # then produce the same events)
                    env = dict(env)
                    for e_ in elems:
                        g_row = guards
                        if e_[0] == "guarded":
                            # an entry that is only there under a condition: its iteration happens under that condition
                            g_row = guards + tuple(e_[1])
                            e_ = e_[2]
                        self.bind(s.target, e_, env, g_row, loops, s)
                        ft, env2 = self.block(s.body, env, g_row, loops)
                        if not ft:
                            return False, None, ()
                        env = env2
                    return True, env, ()
            lid = self._next("loop")
            self.loop_guards[lid] = guards
            assigned = self._assigned_names(s.body)
            nobreak = None
            if s.orelse and self._breaks_of(s.body):
                # for/else, while/else:  <flag> = True; loop: ... <flag> = False; break ...;  if <flag>: <else block>
                nobreak = "<nobreak#%d>" % lid
                env = dict(env)
                env[nobreak] = ("const", True)
                self._nobreak[lid] = nobreak
            if isinstance(s, ast.For):
                it = E(s.iter)
                assigned |= self._assigned_names([ast.Assign(targets=[s.target], value=ast.Constant(None))])
            else:
                it = None
            pg = self._drain(guards)
            guards = guards + pg
            env_body = dict(env)
            for n in assigned:
                # a use before the (re)definition inside the body sees the previous iteration's value or the
                # pre-loop value
                pre = env.get(n)
                self.loop_pre[(n, lid)] = pre
                env_body[n] = ("carried", n, lid) if pre is None else ("phi", (pre, ("carried", n, lid)))
            if isinstance(s, ast.For):
                flt = None
                if it[0] == "local" and len(it) > 3 and isinstance(it[3], tuple) and it[3] and it[3][0] == "comp" \
                        and it[3][1] == "list" and isinstance(s.iter, ast.Name):
                    # names = [y for y in coll if test(y)]; for x in names: ...   (the list is only the loop's iterable)
                    # (reads of the name: the loop header itself; ``names.append(..)`` / ``names.add(..)`` of the collecting loop
                    # the comprehension may have been written as do not count)
                    fills = set(id(n_.func.value) for n_ in ast.walk(self.func) if isinstance(n_, ast.Call)
                                and isinstance(n_.func, ast.Attribute) and n_.func.attr in ("append", "add")
                                and isinstance(n_.func.value, ast.Name) and n_.func.value.id == s.iter.id)
                    reads = sum(1 for n_ in ast.walk(self.func) if isinstance(n_, ast.Name) and n_.id == s.iter.id
                                and isinstance(n_.ctx, ast.Load) and id(n_) not in fills)
                    if reads == 1:
                        it = it[3]
                if it[0] == "comp" and it[1] in ("gen", "list") and len(it[3]) == 1:
                    # for x in (f(y) for y in coll if test(y)):  ==  for y in coll: if not test(y): continue; x = f(y)
                    flt = it
                    it = flt[3][0][1]
                kind, it, d = dict_iter(it)
                el = ("elem", it, lid)
                if kind == "values":
                    el = ("sub", d, el)
                elif kind == "items":
                    el = ("tuple", (el, ("sub", d, el)))
                g2 = guards
                if flt is not None:
                    var_ = ("bound", flt[3][0][0][1])
                    put_ = lambda z, el=el: subst(z, lambda y: el if y == var_ else None)
                    g2 = guards + tuple((put_(c), True) for c in flt[3][0][2])
                    el = put_(flt[2])
                self.bind(s.target, el, env_body, g2, loops, s)
                lp = loops + ((lid, it),)
            else:
                test = self.expr(s.test, env_body, guards, loops + ((lid, ("const", "while")),))
                lp = loops + ((lid, ("unary", "while", test)),)
                g2 = guards + ((test, True),)
            ft, env_after = self.block(s.body, env_body, g2, lp)
            # after the loop: zero iterations (pre env), the body's end, or the environment at a break/continue
            outs = [env_after if ft else None] + self._exit_envs.get(lid, [])
            resolved = []
            for o in outs:
                if o is None:
                    continue
                o2 = {}
                for n, v in o.items():
                    # a variable the path did not touch still holds "pre-loop value or previous iteration's value";
                    # seen from after the loop that is simply one of the other reaching definitions
                    pre = env.get(n)
                    unchanged = ("carried", n, lid) if pre is None else ("phi", (pre, ("carried", n, lid)))
                    if v == unchanged:
                        if pre is not None:
                            o2[n] = pre
                        # no pre-loop value and untouched on this path: contributes nothing
                        continue
                    o2[n] = v
                resolved.append(o2)
            names = set()
            for o in resolved:
                names |= set(o)
            merged_in = [env]
            for o in resolved:
                # variables absent from a resolved env fall back to the pre-loop value (or stay undefined)
                full = dict(env)
                full.update(o)
                merged_in.append(full)
            merged = self.merge(merged_in)
            if s.orelse:
                if nobreak is not None:
                    flag = merged.get(nobreak, ("const", True))
                    ft2, merged2 = self.block(s.orelse, merged, guards + ((flag, True),), loops)
                    if ft2:
                        merged = self.merge([merged, merged2])
                    else:
                        return True, merged, pg + ((flag, False),)
                else:
                    ft2, merged2 = self.block(s.orelse, merged, guards, loops)
                    if not ft2:
                        return False, None, ()
                    merged = merged2
            return True, merged, pg
        if isinstance(s, ast.Try):
            ft_body, env_body = self.block(s.body, env, guards, loops)
            outs = []
            if ft_body:
                if s.orelse:
                    ft_e, env_e = self.block(s.orelse, env_body, guards, loops)
                    if ft_e:
                        outs.append(env_e)
                else:
                    outs.append(env_body)
            for h in s.handlers:
                henv = self.merge([env, env_body]) or dict(env)
                if h.name:
                    henv[h.name] = ("exc", ast.unparse(h.type) if h.type is not None else "BaseException")
                hg = guards + ((("exc", ast.unparse(h.type) if h.type is not None else "BaseException"), True),)
                ft_h, env_h = self.block(h.body, henv, hg, loops)
                if ft_h:
                    outs.append(env_h)
            if not outs:
                if s.finalbody:
                    self.block(s.finalbody, env, guards, loops)
                return False, None, ()
            merged = self.merge(outs)
            if s.finalbody:
                ft_f, merged = self.block(s.finalbody, merged, guards, loops)
                if not ft_f:
                    return False, None, ()
            return True, merged, ()
        if isinstance(s, ast.With):
            for it in s.items:
                ctx = E(it.context_expr)
                if it.optional_vars is not None:
                    self.bind(it.optional_vars, ("call", ("attr", ctx, "__enter__"), (), ()), env, guards, loops, s)
            ft, env2 = self.block(s.body, env, guards, loops)
            if not ft:
                return False, None, ()
            return True, env2, ()
        # unsupported statement kinds (match, async ...) -- make it visible
        self.emit("unsupported", None, ("unknown", type(s).__name__), guards, loops, s)
        return True, env, ()


def extract(func_node, inliner=None, const_resolver=None, self_consts=None, attr_renames=None, gspell=None, sigs=None):
    return Extractor(func_node, inliner=inliner, const_resolver=const_resolver, self_consts=self_consts, attr_renames=attr_renames,
                     gspell=gspell, sigs=sigs)


# ---- guard helpers -------------------------------------------------------------------------------------
def guard_tests(ev):
    return [g for g in ev.guards if g[0][0] != "exc"]


def strip_not(test, pol):
    while test[0] == "unary" and test[1] == "not":
        test = test[2]
        pol = not pol
    return test, pol


def unwrap(t):
    """strip local-identity wrappers"""
    while isinstance(t, tuple) and t and t[0] == "local":
        t = t[3]
    return t


def same_local(a, b):
    return a[0] == "local" and b[0] == "local" and a[1:3] == b[1:3]


def norm_items(t):
    """rewrite the value component of an items() element into a subscript:  (k, v) drawn from X.items()  =>  v == X[k]"""
    def fn(x):
        if x[0] == "idx" and x[2] == 1 and x[1][0] == "elem":
            it = x[1][1]
            base = None
            if it[0] == "call" and it[1][0] == "attr" and it[1][2] in ("items", "iteritems") and not it[2]:
                base = it[1][1]
            elif it[0] == "call" and it[1] == ("global", "six.iteritems") and len(it[2]) == 1:
                base = it[2][0]
            if base is not None:
                return ("sub", base, ("idx", x[1], 0))
        return None
    return subst(t, fn)


def stale_in_iteration(ex):
    """[(variable, term)] for phi terms that mix a value assigned earlier in the *same* loop iteration with the value left
    over from the previous iteration: the variable is (re)assigned on some paths of the iteration only"""
    out = []
    seen = set()
    for ev in ex.events:
        if ev.kind not in ("store", "call", "return", "raise"):
            continue
        for t in (ev.value, ev.target):
            if t is None:
                continue
            for x in walk(t):
                if x[0] != "phi":
                    continue
                carried = [a for a in x[1] if a[0] == "carried"]
                for c in carried:
                    pre = ex.loop_pre.get((c[1], c[2]))
                    pre_alts = set(pre[1]) if pre is not None and pre[0] == "phi" else ({pre} if pre is not None else set())
                    fresh = [a for a in x[1] if a[0] != "carried" and a not in pre_alts]
                    if fresh and (c[1], c[2], ev.lineno) not in seen:
                        seen.add((c[1], c[2], ev.lineno))
                        out.append((c[1], ev.lineno))
    return out
