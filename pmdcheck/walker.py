# -*- coding: utf-8 -*-
"""
E2 -- path walker: a syntax-directed abstract interpreter over statement lists.

A rule supplies a small abstract state (any hashable, usually a frozenset of facts) and transfer
functions over *effects* (calls, stores, deletes -- linearised in Python's evaluation order).  The
walker propagates *sets* of states, which makes it path-sensitive up to state equality without
enumerating paths: a must-fact holds at an exit iff it is in every state that reaches the exit.

Exits are collected as (state, node) for: falling off the end, ``return``, and raising (explicit
``raise`` and calls that the rule declares as may-raise).  try/except routes raising states into the
matching handlers; ``finally`` and ``with`` bodies are applied to every exit that crosses them.
"""
from __future__ import annotations

import ast
import builtins

from .core import AnalysisError


class Effect(object):
    __slots__ = ("kind", "node", "target", "value", "stmt")

    def __init__(self, kind, node, target=None, value=None, stmt=None):
        self.kind = kind        # 'call' | 'store' | 'del' | 'load' (attribute load) | 'test'
        self.node = node
        self.target = target
        self.value = value
        self.stmt = stmt

    def __repr__(self):
        return "<%s %s line %s>" % (self.kind, ast.unparse(self.node)[:60], getattr(self.node, "lineno", "?"))


def effects_of_expr(node, out, stmt):
    """append the effects of evaluating ``node`` in evaluation order"""
    if node is None:
        return
    if isinstance(node, ast.Call):
        effects_of_expr(node.func, out, stmt)
        for a in node.args:
            effects_of_expr(a.value if isinstance(a, ast.Starred) else a, out, stmt)
        for k in node.keywords:
            effects_of_expr(k.value, out, stmt)
        out.append(Effect("call", node, stmt=stmt))
        return
    if isinstance(node, ast.Attribute):
        effects_of_expr(node.value, out, stmt)
        out.append(Effect("load", node, stmt=stmt))
        return
    if isinstance(node, (ast.Lambda, ast.Constant, ast.Name)):
        return
    if isinstance(node, (ast.ListComp, ast.SetComp, ast.GeneratorExp, ast.DictComp)):
        for g in node.generators:
            effects_of_expr(g.iter, out, stmt)
            for c in g.ifs:
                effects_of_expr(c, out, stmt)
        if isinstance(node, ast.DictComp):
            effects_of_expr(node.key, out, stmt)
            effects_of_expr(node.value, out, stmt)
        else:
            effects_of_expr(node.elt, out, stmt)
        return
    for child in ast.iter_child_nodes(node):
        if isinstance(child, ast.expr):
            effects_of_expr(child, out, stmt)
        elif isinstance(child, ast.keyword):
            effects_of_expr(child.value, out, stmt)
        elif isinstance(child, ast.Slice):
            for c in (child.lower, child.upper, child.step):
                effects_of_expr(c, out, stmt)


def effects_of_target(t, value, out, stmt):
    if isinstance(t, (ast.Tuple, ast.List)):
        for e in t.elts:
            effects_of_target(e, value, out, stmt)
        return
    if isinstance(t, ast.Starred):
        effects_of_target(t.value, value, out, stmt)
        return
    if isinstance(t, ast.Attribute):
        effects_of_expr(t.value, out, stmt)
    elif isinstance(t, ast.Subscript):
        effects_of_expr(t.value, out, stmt)
        effects_of_expr(t.slice, out, stmt)
    out.append(Effect("store", t, target=t, value=value, stmt=stmt))


def simple_effects(s):
    out = []
    if isinstance(s, ast.Expr):
        effects_of_expr(s.value, out, s)
    elif isinstance(s, ast.Assign):
        effects_of_expr(s.value, out, s)
        for t in s.targets:
            effects_of_target(t, s.value, out, s)
    elif isinstance(s, ast.AugAssign):
        effects_of_expr(s.value, out, s)
        effects_of_target(s.target, s.value, out, s)
    elif isinstance(s, ast.AnnAssign):
        if s.value is not None:
            effects_of_expr(s.value, out, s)
            effects_of_target(s.target, s.value, out, s)
    elif isinstance(s, ast.Delete):
        for t in s.targets:
            if isinstance(t, (ast.Attribute, ast.Subscript)):
                effects_of_expr(t.value, out, s)
            out.append(Effect("del", t, target=t, stmt=s))
    elif isinstance(s, ast.Assert):
        effects_of_expr(s.test, out, s)
    return out


class PathRule(object):
    """Override what you need.  States must be hashable."""

    def effect(self, eff, state):
        """-> (normal_states, raise_states) ; raise_states is an iterable of (state, exc_name)"""
        return [state], []

    def assume(self, test, polarity, state):
        """-> iterable of states on the branch (empty = branch infeasible for this state)"""
        return [state]

    def on_raise(self, node, state):
        """explicit raise statement -> state carried by the raising exit"""
        return state

    def enter_handler(self, handler, state):
        return state

    def enter_with(self, node, state):
        return state

    def exit_with(self, node, state):
        return state

    def enter_loop(self, node, state):
        return state


def unknown_self_helper(model, fref, call, selfname):
    """``self.<name>(...)`` where <name> is a method of the class that the rules do not know (not part of the pinned tree's
    function inventory), takes ``self`` under the same name and is not overridden in a subclass: its FunctionDef, else None"""
    from .known_funcs import KNOWN_FUNCS
    if fref.cls is None or not (isinstance(call.func, ast.Attribute) and isinstance(call.func.value, ast.Name)
                                and call.func.value.id == selfname):
        return None
    lk = fref.cls.lookup(call.func.attr)
    if lk is None or call.func.attr in lk[0].properties:
        return None
    fn = lk[1]
    q = "%s.%s" % (lk[0].qname, fn.name)
    if q in KNOWN_FUNCS or not fn.args.args or fn.args.args[0].arg != selfname or fn is fref.node:
        return None
    if any(isinstance(n, (ast.Yield, ast.YieldFrom)) for n in ast.walk(fn)):
        return None
    if any(call.func.attr in c.methods and c is not lk[0] for c in model.subclasses(fref.cls)):
        return None
    return fn


class Exits(object):
    def __init__(self):
        self.normal = set()     # states falling off the end
        self.ret = set()        # (state, node)
        self.raise_ = set()     # (state, node, exc_name)

    def all_normal(self):
        """states at every non-raising exit"""
        return set(self.normal) | set(s for s, _ in self.ret)


def _exc_name(node):
    if node is None:
        return "*"
    if isinstance(node, ast.Call):
        node = node.func
    if isinstance(node, ast.Name):
        return node.id
    if isinstance(node, ast.Attribute):
        return node.attr
    return "*"


def _handler_catches(handler, exc_name):
    """True / False / None (maybe)"""
    if handler.type is None:
        return True
    names = []
    t = handler.type
    for e in (t.elts if isinstance(t, ast.Tuple) else [t]):
        names.append(_exc_name(e))
    if exc_name == "*":
        if any(n in ("Exception", "BaseException") for n in names):
            return True
        return None
    cls = getattr(builtins, exc_name, None)
    for n in names:
        if n == exc_name:
            return True
        hc = getattr(builtins, n, None)
        if isinstance(cls, type) and isinstance(hc, type) and issubclass(cls, hc):
            return True
    if not isinstance(cls, type):
        return None
    return False


class Walker(object):
    MAX_ROUNDS = 12

    def __init__(self, rule):
        self.rule = rule
        self.depth = 0

    def run(self, func_node, init_states):
        ex = Exits()
        cur, out = self.block(func_node.body, set(init_states))
        ex.normal = cur
        ex.ret = out["ret"]
        ex.raise_ = out["raise"]
        return ex

    @staticmethod
    def _new_out():
        return {"ret": set(), "brk": set(), "cont": set(), "raise": set()}

    def block(self, stmts, states):
        out = self._new_out()
        cur = set(states)
        for s in stmts:
            if not cur:
                break
            cur, o = self.stmt(s, cur)
            for k in out:
                out[k] |= o[k]
        return cur, out

    def apply_effects(self, effs, states, out):
        cur = set(states)
        for eff in effs:
            nxt = set()
            helper = None
            if eff.kind == "call" and self.depth < 2:
                h = getattr(self.rule, "helper", None)
                helper = h(eff.node) if h is not None else None
            for st in cur:
                if helper is not None:
                    # a helper the rule does not know (introduced by a refactoring): walk its body in place of the call
                    fn_node, sub_rule = helper
                    w = Walker(sub_rule)
                    w.depth = self.depth + 1
                    ex = w.run(fn_node, {st})
                    nxt |= set(ex.normal) | set(s_ for s_, _ in ex.ret)
                    for rs in ex.raise_:
                        out["raise"].add((rs[0], eff.node, rs[2]))
                    continue
                normal, raising = self.rule.effect(eff, st)
                nxt |= set(normal)
                for rs in raising:
                    out["raise"].add((rs[0], eff.node, rs[1]))
            cur = nxt
            if not cur:
                break
        return cur

    def eval_expr(self, expr, states, out, stmt):
        effs = []
        effects_of_expr(expr, effs, stmt)
        return self.apply_effects(effs, states, out)

    def branch(self, test, states, polarity):
        res = set()
        for st in states:
            res |= set(self.rule.assume(test, polarity, st))
        return res

    def stmt(self, s, states):
        out = self._new_out()
        r = self.rule
        if isinstance(s, ast.If):
            st = self.eval_expr(s.test, states, out, s)
            a, oa = self.block(s.body, self.branch(s.test, st, True))
            b, ob = self.block(s.orelse, self.branch(s.test, st, False))
            for k in out:
                out[k] |= oa[k] | ob[k]
            return a | b, out
        if isinstance(s, (ast.For, ast.While)):
            infinite = isinstance(s, ast.While) and isinstance(s.test, ast.Constant) and bool(s.test.value)
            seen = set()
            exit_states = set()
            brk_exit = set()
            frontier = self.eval_expr(s.iter, states, out, s) if isinstance(s, ast.For) else set(states)
            rounds = 0
            while True:
                new = frontier - seen
                if not new:
                    break
                rounds += 1
                if rounds > self.MAX_ROUNDS:
                    raise AnalysisError("path walker: loop at line %s does not stabilise" % s.lineno)
                seen |= new
                if isinstance(s, ast.While):
                    tested = self.eval_expr(s.test, new, out, s)
                    if infinite:
                        enter = tested
                    else:
                        exit_states |= self.branch(s.test, tested, False)
                        enter = self.branch(s.test, tested, True)
                else:
                    exit_states |= new          # iterator exhausted
                    enter = new
                enter = set(r.enter_loop(s, x) for x in enter)
                body, ob = self.block(s.body, enter)
                out["ret"] |= ob["ret"]
                out["raise"] |= ob["raise"]
                brk_exit |= ob["brk"]
                frontier = body | ob["cont"]
            if s.orelse:
                e, oe = self.block(s.orelse, exit_states)
                for k in out:
                    out[k] |= oe[k]
                exit_states = e
            return exit_states | brk_exit, out
        if isinstance(s, ast.Try):
            body, ob = self.block(s.body, states)
            res = set()
            pending = self._new_out()
            pending["ret"] |= ob["ret"]
            pending["brk"] |= ob["brk"]
            pending["cont"] |= ob["cont"]
            if s.orelse:
                body, oe = self.block(s.orelse, body)
                for k in pending:
                    pending[k] |= oe[k]
            res |= body
            for (st, node, exc) in ob["raise"]:
                caught = False
                for h in s.handlers:
                    c = _handler_catches(h, exc)
                    if c is False:
                        continue
                    hb, oh = self.block(h.body, {r.enter_handler(h, st)})
                    res |= hb
                    for k in pending:
                        if k == "raise":
                            # bare ``raise`` inside the handler re-raises the original exception
                            for (st2, n2, e2) in oh[k]:
                                pending[k].add((st2, n2, exc if e2 == "<reraise>" else e2))
                        else:
                            pending[k] |= oh[k]
                    if c is True:
                        caught = True
                        break
                if not caught:
                    pending["raise"].add((st, node, exc))
            if s.finalbody:
                res, of = self.block(s.finalbody, res)
                for k in out:
                    out[k] |= of[k]
                for k in ("ret", "brk", "cont"):
                    for item in pending[k]:
                        st = item[0] if isinstance(item, tuple) and k == "ret" else item
                        fb, of2 = self.block(s.finalbody, {st})
                        for k2 in out:
                            out[k2] |= of2[k2]
                        for st2 in fb:
                            out[k].add((st2, item[1]) if k == "ret" else st2)
                for (st, node, exc) in pending["raise"]:
                    fb, of2 = self.block(s.finalbody, {st})
                    for k2 in out:
                        out[k2] |= of2[k2]
                    for st2 in fb:
                        out["raise"].add((st2, node, exc))
            else:
                for k in out:
                    out[k] |= pending[k]
            return res, out
        if isinstance(s, ast.With):
            st = set(states)
            for it in s.items:
                st = self.eval_expr(it.context_expr, st, out, s)
            st = set(r.enter_with(s, x) for x in st)
            body, ob = self.block(s.body, st)
            res = set(r.exit_with(s, x) for x in body)
            out["ret"] |= set((r.exit_with(s, x), n) for (x, n) in ob["ret"])
            out["brk"] |= set(r.exit_with(s, x) for x in ob["brk"])
            out["cont"] |= set(r.exit_with(s, x) for x in ob["cont"])
            out["raise"] |= set((r.exit_with(s, x), n, e) for (x, n, e) in ob["raise"])
            return res, out
        if isinstance(s, ast.Return):
            st = self.eval_expr(s.value, states, out, s) if s.value is not None else set(states)
            out["ret"] |= set((x, s) for x in st)
            return set(), out
        if isinstance(s, ast.Raise):
            st = self.eval_expr(s.exc, states, out, s) if s.exc is not None else set(states)
            name = _exc_name(s.exc) if s.exc is not None else "<reraise>"
            out["raise"] |= set((r.on_raise(s, x), s, name) for x in st)
            return set(), out
        if isinstance(s, ast.Break):
            out["brk"] |= set(states)
            return set(), out
        if isinstance(s, ast.Continue):
            out["cont"] |= set(states)
            return set(), out
        if isinstance(s, (ast.FunctionDef, ast.ClassDef, ast.Pass, ast.Import, ast.ImportFrom, ast.Global, ast.Nonlocal)):
            return set(states), out
        if isinstance(s, (ast.Expr, ast.Assign, ast.AugAssign, ast.AnnAssign, ast.Delete, ast.Assert)):
            return self.apply_effects(simple_effects(s), states, out), out
        raise AnalysisError("path walker: unsupported statement %s at line %s" % (type(s).__name__, s.lineno))
