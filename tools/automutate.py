#!/venv/bin/python
"""
Differential harness for the checks (development tool, not a registered check): automatic one-node mutants of productmd.

  tools/automutate.py gen                     -> $OUT/mutants.jsonl   (every applicable mutation of every module)
  tools/automutate.py tests                   -> $OUT/tests.jsonl     (which mutants survive the repository's 90 tests)
  tools/automutate.py checks                  -> $OUT/checks.jsonl    (test survivors: which checks fire / stop with an error)
  tools/automutate.py demos [--only silent]   -> $OUT/demos.jsonl     (test survivors: which seed demonstrations fail)
  tools/automutate.py report                  -> table + lists to triage

A mutant that survives the tests, makes the demonstration of a seed of property P fail (that demonstration passes on the
unchanged tree) and is passed by the check of P is a *miss to look at*; a mutant reported by a check while no demonstration
fails is a *candidate false alarm* (weak evidence: the demonstrations are sparse).  Everything runs on scratch copies under $OUT
(default /tmp/automut), never in /repo; the library is only ever executed here, in the harness that tests the checker -
the checks themselves stay static.
"""
import ast, io, json, os, shutil, subprocess, sys, tempfile, hashlib
from concurrent.futures import ProcessPoolExecutor

REPO = "/repo"
OUT = os.environ.get("AUTOMUT_OUT", "/tmp/automut")
VERIF = os.path.dirname(os.path.dirname(os.path.abspath(__file__)))
MODULES = ["common", "composeinfo", "images", "rpms", "modules", "extra_files", "treeinfo", "discinfo", "compose"]

CMP_SWAP = {ast.Lt: [ast.LtE, ast.GtE], ast.LtE: [ast.Lt, ast.Gt], ast.Gt: [ast.GtE, ast.LtE], ast.GtE: [ast.Gt, ast.Lt],
            ast.Eq: [ast.NotEq], ast.NotEq: [ast.Eq], ast.In: [ast.NotIn], ast.NotIn: [ast.In], ast.Is: [ast.IsNot],
            ast.IsNot: [ast.Is]}
UNWRAP_FUNCS = {"sorted", "set", "int", "str", "bool", "list", "tuple", "frozenset", "len", "reversed"}
UNWRAP_METHODS = {"lower", "upper", "strip", "lstrip", "rstrip", "copy", "keys", "values", "items"}


def seg(src_lines, node):
    """(start offset, end offset) of a node in the source text"""
    def off(line, col):
        return sum(len(l) for l in src_lines[:line - 1]) + len(src_lines[line - 1].encode()[:col].decode())
    return off(node.lineno, node.col_offset), off(node.end_lineno, node.end_col_offset)


def gen_module(mod):
    path = os.path.join(REPO, "productmd", mod + ".py")
    src = open(path).read()
    lines = src.splitlines(True)
    tree = ast.parse(src)
    parents = {}
    for n in ast.walk(tree):
        for c in ast.iter_child_nodes(n):
            parents[c] = n
    out = []

    def func_of(n):
        names = []
        while n in parents:
            n = parents[n]
            if isinstance(n, (ast.FunctionDef, ast.ClassDef)):
                names.append(n.name)
        return ".".join(reversed(names)) or "<module>"

    def emit(node, new_text, op, what):
        a, b = seg(lines, node)
        old = src[a:b]
        if old == new_text:
            return
        out.append({"module": mod, "op": op, "line": node.lineno, "func": func_of(node), "start": a, "end": b,
                    "old": old[:120], "new": new_text, "what": what})

    def expr_text(n):
        return "(" + ast.unparse(n) + ")"

    docstrings = set()
    for n in ast.walk(tree):
        if isinstance(n, (ast.FunctionDef, ast.ClassDef, ast.Module)) and n.body and isinstance(n.body[0], ast.Expr) \
                and isinstance(n.body[0].value, ast.Constant) and isinstance(n.body[0].value.value, str):
            docstrings.add(n.body[0].value)
    for n in ast.walk(tree):
        if isinstance(n, ast.Compare) and len(n.ops) == 1:
            for new in CMP_SWAP.get(type(n.ops[0]), []):
                m = ast.Compare(left=n.left, ops=[new()], comparators=n.comparators)
                emit(n, expr_text(m), "cmp", "%s -> %s" % (type(n.ops[0]).__name__, new.__name__))
        elif isinstance(n, ast.BoolOp):
            other = ast.Or if isinstance(n.op, ast.And) else ast.And
            emit(n, expr_text(ast.BoolOp(op=other(), values=n.values)), "boolop", "and <-> or")
            for i, v in enumerate(n.values):
                rest = [x for j, x in enumerate(n.values) if j != i]
                m = rest[0] if len(rest) == 1 else ast.BoolOp(op=n.op, values=rest)
                emit(n, expr_text(m), "boolop-drop", "operand %d dropped" % i)
        elif isinstance(n, (ast.If, ast.While, ast.IfExp)):
            t = n.test
            if isinstance(t, ast.UnaryOp) and isinstance(t.op, ast.Not):
                emit(t, expr_text(t.operand), "negate", "not removed")
            else:
                emit(t, "(not %s)" % expr_text(t), "negate", "test negated")
            if isinstance(n, ast.If):
                # the test widened / narrowed by an unrelated condition over a name the function already reads
                fn = n
                while fn in parents and not isinstance(fn, ast.FunctionDef):
                    fn = parents[fn]
                if isinstance(fn, ast.FunctionDef):
                    in_test = set(ast.unparse(x) for x in ast.walk(t) if isinstance(x, (ast.Name, ast.Attribute)))
                    extras = []
                    for a in fn.args.args[1:] if fn.args.args and fn.args.args[0].arg == "self" else fn.args.args:
                        extras.append(a.arg)
                    for x in ast.walk(fn):
                        if isinstance(x, ast.Attribute) and isinstance(x.value, ast.Name) and x.value.id == "self" \
                                and isinstance(x.ctx, ast.Load) and not isinstance(parents.get(x), ast.Call):
                            extras.append("self." + x.attr)
                    extras = [e for e in dict.fromkeys(extras) if e not in in_test][:2]
                    for e in extras:
                        emit(t, "(%s or not %s)" % (expr_text(t), e), "widen", "test widened with 'or not %s'" % e)
                        emit(t, "(%s and bool(%s))" % (expr_text(t), e), "narrow", "test narrowed with 'and %s'" % e)
        elif isinstance(n, ast.Constant) and n not in docstrings:
            p = parents.get(n)
            if isinstance(p, ast.JoinedStr):
                continue
            v = n.value
            if isinstance(v, bool):
                emit(n, repr(not v), "const", "bool flipped")
            elif isinstance(v, int):
                emit(n, repr(v + 1), "const", "int + 1")
                if v > 0:
                    emit(n, repr(v - 1), "const", "int - 1")
            elif isinstance(v, str) and 0 < len(v) <= 40 and n.lineno == n.end_lineno:
                emit(n, repr(v + "_"), "const", "string extended")
                if len(v) > 1:
                    emit(n, repr(v[:-1]), "const", "string shortened")
            elif v is None and isinstance(p, (ast.Return, ast.Assign, ast.keyword, ast.Call)):
                emit(n, '""', "const", "None -> ''")
        elif isinstance(n, (ast.Expr, ast.Assign, ast.AugAssign, ast.Raise, ast.Return, ast.Continue, ast.Break, ast.Delete)):
            if isinstance(n, ast.Expr) and isinstance(n.value, ast.Constant):
                continue
            p = parents.get(n)
            if isinstance(p, (ast.Module, ast.ClassDef)) and not isinstance(n, ast.Expr):
                continue          # module/class level bindings: deleting them breaks the import
            emit(n, "pass", "delete", "%s deleted" % type(n).__name__)
            if isinstance(n, ast.Continue):
                emit(n, "break", "jump", "continue -> break")
            if isinstance(n, ast.Break):
                emit(n, "continue", "jump", "break -> continue")
        elif isinstance(n, ast.Call):
            f = n.func
            if isinstance(f, ast.Name) and f.id in UNWRAP_FUNCS and len(n.args) >= 1 and not isinstance(n.args[0], ast.Starred):
                emit(n, expr_text(n.args[0]), "unwrap", "%s() removed" % f.id)
            if isinstance(f, ast.Attribute) and f.attr in UNWRAP_METHODS and not n.args and not n.keywords:
                emit(n, expr_text(f.value), "unwrap", ".%s() removed" % f.attr)
            if len(n.args) == 2 and not n.keywords and not any(isinstance(a, ast.Starred) for a in n.args):
                m = ast.Call(func=n.func, args=[n.args[1], n.args[0]], keywords=[])
                emit(n, ast.unparse(m), "argswap", "arguments swapped")
            for i, kw in enumerate(n.keywords):
                if kw.arg is not None:
                    m = ast.Call(func=n.func, args=n.args, keywords=[k for j, k in enumerate(n.keywords) if j != i])
                    emit(n, ast.unparse(m), "kwdrop", "keyword %s dropped" % kw.arg)
        elif isinstance(n, ast.BinOp) and isinstance(n.op, (ast.Add, ast.Sub)):
            if isinstance(n.op, ast.Add) and any(isinstance(x, ast.Constant) and isinstance(x.value, str) for x in (n.left, n.right)):
                continue
            other = ast.Sub if isinstance(n.op, ast.Add) else ast.Add
            emit(n, expr_text(ast.BinOp(left=n.left, op=other(), right=n.right)), "binop", "+ <-> -")
        elif isinstance(n, ast.Subscript) and isinstance(n.slice, ast.Slice):
            s = n.slice
            if s.lower is not None:
                emit(n, ast.unparse(ast.Subscript(value=n.value, slice=ast.Slice(lower=None, upper=s.upper, step=s.step), ctx=ast.Load())),
                     "slice", "lower bound dropped")
            if s.upper is not None:
                emit(n, ast.unparse(ast.Subscript(value=n.value, slice=ast.Slice(lower=s.lower, upper=None, step=s.step), ctx=ast.Load())),
                     "slice", "upper bound dropped")
        elif isinstance(n, ast.UnaryOp) and isinstance(n.op, ast.Not) and not isinstance(parents.get(n), (ast.If, ast.While, ast.IfExp)):
            emit(n, expr_text(n.operand), "negate", "not removed")
    # keep only mutants that compile
    good = []
    only = set(filter(None, os.environ.get("AUTOMUT_OPS", "").split(",")))
    for m in out:
        if only and m["op"] not in only:
            continue
        new_src = src[:m["start"]] + m["new"] + src[m["end"]:]
        try:
            compile(new_src, path, "exec")
        except SyntaxError:
            continue
        m["id"] = "%s:%d:%s:%s" % (mod, m["line"], m["op"], hashlib.md5((str(m["start"]) + m["new"]).encode()).hexdigest()[:6])
        good.append(m)
    return good


def cmd_gen():
    os.makedirs(OUT, exist_ok=True)
    n = 0
    with open(os.path.join(OUT, "mutants.jsonl"), "w") as f:
        for mod in MODULES:
            ms = gen_module(mod)
            for m in ms:
                f.write(json.dumps(m) + "\n")
            print("%-12s %5d mutants" % (mod, len(ms)))
            n += len(ms)
    print("total", n)


def load(name):
    p = os.path.join(OUT, name)
    return [json.loads(l) for l in open(p)] if os.path.exists(p) else []


def make_tree(m):
    """a scratch copy of the repository with the mutant applied; returns its path"""
    tmp = tempfile.mkdtemp(prefix="am_", dir=OUT)
    for d in ("productmd", "tests", "doc"):
        shutil.copytree(os.path.join(REPO, d), os.path.join(tmp, d), ignore=shutil.ignore_patterns("__pycache__"))
    for fn in ("setup.py", "tox.ini"):
        if os.path.exists(os.path.join(REPO, fn)):
            shutil.copy(os.path.join(REPO, fn), tmp)
    if m is not None:
        p = os.path.join(tmp, "productmd", m["module"] + ".py")
        src = open(os.path.join(REPO, "productmd", m["module"] + ".py")).read()
        open(p, "w").write(src[:m["start"]] + m["new"] + src[m["end"]:])
    return tmp


def run_tests(m):
    tmp = make_tree(m)
    try:
        env = dict(os.environ, PYTHONPATH=tmp, PYTHONDONTWRITEBYTECODE="1")
        try:
            p = subprocess.run(["/venv/bin/python", "-m", "pytest", "-q", "-x", "-p", "no:cacheprovider", "--timeout=60"], cwd=tmp, env=env,
                               stdout=subprocess.PIPE, stderr=subprocess.STDOUT, text=True, timeout=180)
            rc = p.returncode
        except subprocess.TimeoutExpired:
            rc = 124
        return {"id": m["id"], "tests_rc": rc}
    finally:
        shutil.rmtree(tmp, ignore_errors=True)


def run_checks(m):
    """all twenty checks in a child process (a mutant can send an analysis into a blow-up: time and memory are capped)"""
    import resource
    tmp = make_tree(m)
    try:
        def limits():
            resource.setrlimit(resource.RLIMIT_AS, (4 << 30, 4 << 30))
        fired, errors, lines = [], [], {}
        for i in range(1, 21):
            pid = "C%02d" % i
            try:
                p = subprocess.run(["/venv/bin/python", "-m", "pmdcheck", pid, "--tier", "quick", "--quiet", "--repo", tmp,
                                    "--evidence-dir", os.path.join(tmp, "evidence")], cwd=VERIF, stdout=subprocess.PIPE,
                                   stderr=subprocess.STDOUT, text=True, timeout=240, preexec_fn=limits)
                rc, out = p.returncode, p.stdout
            except subprocess.TimeoutExpired:
                rc, out = 2, "ANALYSIS-ERROR timeout"
            if rc == 1:
                fired.append(pid)
            elif rc != 0:
                errors.append(pid)
            if rc:
                lines[pid] = [l[:300] for l in out.splitlines() if l.startswith(("FAILED", "ANALYSIS-ERROR", "Traceback", "MemoryError"))][:3]
        return {"id": m["id"], "fired": fired, "errors": errors, "lines": lines}
    finally:
        shutil.rmtree(tmp, ignore_errors=True)


def demos():
    out = []
    sd = os.path.join(VERIF, "seeded")
    for name in sorted(os.listdir(sd)):
        d = os.path.join(sd, name)
        meta = os.path.join(d, "meta.json")
        if not os.path.exists(meta):
            continue
        prop = json.load(open(meta))["property"]
        for fn in sorted(os.listdir(d)):
            if fn.startswith("demo") and fn.endswith(".py"):
                out.append((name, prop, os.path.join(d, fn)))
    return out


def run_demos(m):
    tmp = make_tree(m)
    try:
        env = dict(os.environ, PYTHONPATH=tmp, PYTHONDONTWRITEBYTECODE="1")
        failed = []
        for name, prop, path in demos():
            try:
                p = subprocess.run(["/venv/bin/python", path], cwd=tmp, env=env, stdout=subprocess.DEVNULL, stderr=subprocess.DEVNULL,
                                   timeout=60)
                rc = p.returncode
            except subprocess.TimeoutExpired:
                rc = 124
            if rc != 0:
                failed.append([name, prop, rc])
        return {"id": m["id"] if m else "<clean>", "failed": failed}
    finally:
        shutil.rmtree(tmp, ignore_errors=True)


def stage(name, fn, todo, jobs=16):
    done = set(r["id"] for r in load(name))
    todo = [m for m in todo if m["id"] not in done]
    print("%s: %d to run (%d done)" % (name, len(todo), len(done)))
    with open(os.path.join(OUT, name), "a") as f, ProcessPoolExecutor(max_workers=jobs) as ex:
        for i, r in enumerate(ex.map(fn, todo, chunksize=1)):
            f.write(json.dumps(r) + "\n")
            f.flush()
            if (i + 1) % 200 == 0:
                print("  ", i + 1, flush=True)


def main():
    cmd = sys.argv[1]
    if cmd == "gen":
        return cmd_gen()
    muts = load("mutants.jsonl")
    if cmd == "tests":
        return stage("tests.jsonl", run_tests, muts)
    surv = set(r["id"] for r in load("tests.jsonl") if r["tests_rc"] == 0)
    alive = [m for m in muts if m["id"] in surv]
    if cmd == "checks":
        return stage("checks.jsonl", run_checks, alive)
    if cmd == "demos":
        if "--clean" in sys.argv:
            print(run_demos(None))
            return
        if "--only" in sys.argv and sys.argv[sys.argv.index("--only") + 1] == "silent":
            ch = dict((r["id"], r) for r in load("checks.jsonl"))
            alive = [m for m in alive if m["id"] in ch and not ch[m["id"]]["fired"]]
        return stage("demos.jsonl", run_demos, alive)
    if cmd == "report":
        ch = dict((r["id"], r) for r in load("checks.jsonl"))
        dm = dict((r["id"], r) for r in load("demos.jsonl"))
        print("mutants %d, survive the tests %d, checked %d, demos run on %d" % (len(muts), len(alive), len(ch), len(dm)))
        miss, silent_nodemo, fa, agree = [], [], [], []
        for m in alive:
            c, d = ch.get(m["id"]), dm.get(m["id"])
            if c is None or d is None:
                continue
            dprops = sorted(set(p for _, p, _ in d["failed"]))
            missed = [p for p in dprops if p not in c["fired"]]
            if dprops and not c["fired"]:
                miss.append((m, dprops, c))
            elif missed:
                agree.append((m, dprops, c, missed))
            elif not dprops and c["fired"]:
                fa.append((m, c))
            elif not dprops:
                silent_nodemo.append((m, c))
        print("demo fails, no check fires: %d | demo fails for P, other checks fire only: %d | check fires, no demo fails: %d | "
              "neither: %d" % (len(miss), len(agree), len(fa), len(silent_nodemo)))
        which = sys.argv[2] if len(sys.argv) > 2 else "miss"
        rows = {"miss": miss, "partial": agree, "fa": fa, "quiet": silent_nodemo}[which]
        for row in rows:
            m = row[0]
            print("%-34s %-40s %-28s %r -> %r" % (m["id"], m["func"][:40], m["what"], m["old"][:50], m["new"][:50]))
            if which in ("miss", "partial"):
                print("      demos failing: %s   fired: %s errors: %s" % (row[1], row[2]["fired"], row[2]["errors"]))
            elif which == "fa":
                for pid, ls in row[1]["lines"].items():
                    for l in ls[:1]:
                        print("      %s" % l[:220])


if __name__ == "__main__":
    main()
