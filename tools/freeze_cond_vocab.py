#!/venv/bin/python
"""(re)generate pmdcheck/rules/cond_vocab.json from a tree -- only after the functions whose conditions changed were re-read and the
new conditions found to be what the properties ask for (the file is the frozen reference of R-COND-VOCAB, never written by a check)

  tools/freeze_cond_vocab.py [/repo]
"""
import json, os, sys
HERE = os.path.dirname(os.path.dirname(os.path.abspath(__file__)))
sys.path.insert(0, HERE)
from pmdcheck.model import Model
from pmdcheck.rules import vocab

def main():
    repo = sys.argv[1] if len(sys.argv) > 1 else "/repo"
    cur = vocab.current(Model(repo))
    with open(vocab.FROZEN, "w") as f:
        json.dump(cur, f, indent=1, sort_keys=True)
    print("frozen %d functions, %d atoms" % (len(cur), sum(len(v) for v in cur.values())))

if __name__ == "__main__":
    main()
