#!/venv/bin/python
"""(re)generate pmdcheck/rules/legacy_facts.json from a tree -- only after the legacy readers of that tree were re-read and found to
implement the documented down-conversion (the file is the frozen reference of R-LEGACY-FACTS, never written by a check)

  tools/freeze_legacy_facts.py [/repo]
"""
import json, os, sys
HERE = os.path.dirname(os.path.dirname(os.path.abspath(__file__)))
sys.path.insert(0, HERE)
from pmdcheck.model import Model
from pmdcheck.rules import legacy_fp

def main():
    repo = sys.argv[1] if len(sys.argv) > 1 else "/repo"
    cur = legacy_fp.current(Model(repo))
    with open(legacy_fp.FROZEN, "w") as f:
        json.dump(cur, f, indent=1, sort_keys=True)
    print("frozen %d readers, %d facts" % (len(cur), sum(len(v) for v in cur.values())))
    vals = legacy_fp.current_values(Model(repo))
    with open(legacy_fp.FROZEN_VALUES, "w") as f:
        json.dump(vals, f, indent=1, sort_keys=True)
    print("frozen %d pre-productmd readers, %d condition-free facts" % (len(vals), sum(len(v) for v in vals.values())))

if __name__ == "__main__":
    main()
