#!/venv/bin/python
"""copy behaviour-preserving refactor patches produced by independent sub-agents (<worktree>/refactors/ref_k.patch|txt) into
/verif/neutral/<tag>-<k>/ (patch.diff, note.txt) after checking that each applies to /repo HEAD and compiles"""
import os, shutil, subprocess, sys, tempfile
HERE = os.path.dirname(os.path.dirname(os.path.abspath(__file__)))
ND = os.path.join(HERE, "neutral")

def _only_package(src, dst):
    """keep only the hunks that touch the package (the checks read nothing else): doc/ and tests/ hunks are dropped"""
    parts, cur = [], []
    for line in open(src):
        if line.startswith("diff --git "):
            if cur:
                parts.append(cur)
            cur = []
        cur.append(line)
    if cur:
        parts.append(cur)
    with open(dst, "w") as f:
        for part in parts:
            if part[0].startswith("diff --git a/productmd/"):
                f.writelines(part)


def main():
    for wt in sys.argv[1:]:
        tag = os.path.basename(wt.rstrip("/"))
        rd = os.path.join(wt, "refactors")
        for fn in sorted(os.listdir(rd)):
            if not fn.endswith(".patch"):
                continue
            k = fn[len("ref_"):-len(".patch")]
            tmp = tempfile.mkdtemp(prefix="pmd_neutral_")
            try:
                subprocess.run(["git", "-C", "/repo", "archive", "HEAD", "productmd"], stdout=open(os.path.join(tmp, "a.tar"), "wb"), check=True)
                subprocess.run(["tar", "-xf", "a.tar"], cwd=tmp, check=True)
                filtered = os.path.join(tmp, "filtered.patch")
                _only_package(os.path.join(rd, fn), filtered)
                p = subprocess.run(["patch", "-p1", "-s", "--no-backup-if-mismatch", "-i", filtered], cwd=tmp,
                                   stdout=subprocess.PIPE, stderr=subprocess.STDOUT, text=True)
                if p.returncode != 0:
                    print("%s-%s: patch does not apply: %s" % (tag, k, p.stdout.strip()[:200]))
                    continue
            finally:
                shutil.rmtree(tmp, ignore_errors=True)
            d = os.path.join(ND, "%s-%s" % (tag, k))
            os.makedirs(d, exist_ok=True)
            _only_package(os.path.join(rd, fn), os.path.join(d, "patch.diff"))
            note = os.path.join(rd, "ref_%s.txt" % k)
            if os.path.exists(note):
                shutil.copy(note, os.path.join(d, "note.txt"))
            print("imported", d)

if __name__ == "__main__":
    main()
