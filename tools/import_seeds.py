#!/venv/bin/python
"""
Import the seeded changes a sub-agent left in <worktree>/seeds/ into /verif/seeded/<id>-<k>/ after confirming them:
tests pass with the seed, the demonstration fails with it and passes without it.  Then run all checks against the
seeded tree (scratch copy) and record which fire.   tools/import_seeds.py /tmp/wt/C01 [C02 ...]
"""
import json, os, shutil, subprocess, sys

HERE = os.path.dirname(os.path.dirname(os.path.abspath(__file__)))

def main():
    prefix = ""
    args = sys.argv[1:]
    if "--prefix" in args:
        i = args.index("--prefix")
        prefix = args[i + 1]
        del args[i:i + 2]
    for wt in args:
        sd = os.path.join(wt, "seeds")
        if not os.path.isdir(sd):
            print(wt, "no seeds dir"); continue
        for k in (1, 2, 3, 4, 5):
            patch = os.path.join(sd, "seed_%d.patch" % k)
            demo = os.path.join(sd, "demo_%d.py" % k)
            meta = os.path.join(sd, "meta_%d.json" % k)
            if not (os.path.exists(patch) and os.path.exists(demo)):
                continue
            p = subprocess.run([os.path.join(HERE, "tools", "try_seed.py"), patch, demo], stdout=subprocess.PIPE, text=True)
            try:
                res = json.loads(p.stdout)
            except Exception:
                print(wt, k, "try_seed failed:", p.stdout[-300:]); continue
            try:
                m = json.load(open(meta))
            except Exception:
                m = {}
            pid = m.get("property") or os.path.basename(wt)
            valid = ("passed" in res.get("tests_with_seed", "") and "failed" not in res.get("tests_with_seed", "")
                     and res.get("demo_with_seed_rc") not in (0, None) and res.get("demo_clean_rc") == 0)
            name = "%s%s-%d" % (prefix, os.path.basename(wt), k)
            fired = [f[0] for f in res.get("fired", [])]
            print("%s valid=%s tests=%r demo_seed_rc=%s demo_clean_rc=%s fired=%s errors=%s" % (
                name, valid, res.get("tests_with_seed"), res.get("demo_with_seed_rc"), res.get("demo_clean_rc"), fired,
                [e[0] for e in res.get("analysis_errors", [])]))
            print("     ", m.get("summary", "")[:200])
            if not valid:
                continue
            dst = os.path.join(HERE, "seeded", name)
            os.makedirs(dst, exist_ok=True)
            shutil.copy(patch, os.path.join(dst, "patch.diff"))
            shutil.copy(demo, os.path.join(dst, "demo.py"))
            m.update({
                "property": pid, "origin": "independent sub-agent given only the property text and a scratch worktree",
                "confirmed": {"tests_with_seed": res["tests_with_seed"], "demo_with_seed_rc": res["demo_with_seed_rc"],
                              "demo_with_seed_out": res.get("demo_with_seed_out", "")[-300:], "demo_clean_rc": res["demo_clean_rc"],
                              "how": "tools/try_seed.py: two scratch worktrees of /repo HEAD (clean / patch applied), pytest -q, demo.py in both, "
                                     "then every check with --repo <seeded worktree>"},
                "checks_fired": res.get("fired", []), "analysis_errors": res.get("analysis_errors", [])})
            json.dump(m, open(os.path.join(dst, "meta.json"), "w"), indent=1)

if __name__ == "__main__":
    main()
