#!/usr/bin/env python3
"""
Generated behaviour-preserving rewrites of the whole package, for false-alarm testing of the checkers.

    neutralgen.py <transform> <tree>        rewrites <tree>/productmd/*.py in place (a scratch worktree, never /repo)
    neutralgen.py --list

Each transform is a mechanical refactoring applied at every site where its side condition holds (the side conditions are
syntactic and conservative; the rewritten tree is then run through the repository's test suite before it is kept as a patch
under /verif/neutral/).  Modules are re-emitted with ast.unparse, so comments and layout are lost: that is part of the test.
"""
from __future__ import annotations

import ast
import copy
import os
import sys

MODULES = ["common", "compose", "composeinfo", "discinfo", "extra_files", "images", "modules", "rpms", "treeinfo"]


def _pure(e):
    """an expression whose evaluation has no effect and cannot be affected by evaluating another pure expression"""
    for n in ast.walk(e):
        if isinstance(n, (ast.Call, ast.Await, ast.Yield, ast.YieldFrom, ast.NamedExpr, ast.Lambda, ast.ListComp, ast.SetComp,
                          ast.DictComp, ast.GeneratorExp)):
            return False
    return True


def _names_in(fn):
    out = set()
    for n in ast.walk(fn):
        if isinstance(n, ast.Name):
            out.add(n.id)
        elif isinstance(n, ast.arg):
            out.add(n.arg)
    return out


class Counter(object):
    n = 0


# ---------------------------------------------------------------------------------------------------------------------------
class IfExpToStmt(ast.NodeTransformer):
    """``x = a if c else b`` -> if c: x = a / else: x = b ; ``return a if c else b`` likewise"""
    def _blocks(self, stmts):
        out = []
        for s in stmts:
            s = self.generic_visit(s)
            if isinstance(s, ast.Assign) and len(s.targets) == 1 and isinstance(s.value, ast.IfExp) \
                    and isinstance(s.targets[0], (ast.Name, ast.Attribute)) and _pure(s.targets[0]):
                v = s.value
                out.append(ast.If(test=v.test, body=[ast.Assign(targets=[copy.deepcopy(s.targets[0])], value=v.body)],
                                  orelse=[ast.Assign(targets=[copy.deepcopy(s.targets[0])], value=v.orelse)]))
                Counter.n += 1
            elif isinstance(s, ast.Return) and isinstance(s.value, ast.IfExp):
                v = s.value
                out.append(ast.If(test=v.test, body=[ast.Return(value=v.body)], orelse=[ast.Return(value=v.orelse)]))
                Counter.n += 1
            else:
                out.append(s)
        return out

    def generic_visit(self, node):
        for f in ("body", "orelse", "finalbody"):
            if isinstance(getattr(node, f, None), list) and getattr(node, f) and isinstance(getattr(node, f)[0], ast.stmt):
                setattr(node, f, self._blocks(getattr(node, f)))
        if isinstance(node, ast.Try):
            for h in node.handlers:
                h.body = self._blocks(h.body)
        return node


class AndToNested(ast.NodeTransformer):
    """``if a and b: body`` (no else) -> ``if a: if b: body``"""
    def visit_If(self, node):
        self.generic_visit(node)
        if not node.orelse and isinstance(node.test, ast.BoolOp) and isinstance(node.test.op, ast.And):
            vals = node.test.values
            inner = ast.If(test=vals[-1], body=node.body, orelse=[])
            for v in reversed(vals[:-1]):
                inner = ast.If(test=v, body=[inner], orelse=[])
            Counter.n += 1
            return inner
        return node


class NestedToAnd(ast.NodeTransformer):
    """``if a: if b: body`` (neither with else) -> ``if a and b: body``"""
    def visit_If(self, node):
        self.generic_visit(node)
        if not node.orelse and len(node.body) == 1 and isinstance(node.body[0], ast.If) and not node.body[0].orelse:
            inner = node.body[0]
            vals = []
            for t in (node.test, inner.test):
                vals.extend(t.values if isinstance(t, ast.BoolOp) and isinstance(t.op, ast.And) else [t])
            Counter.n += 1
            return ast.If(test=ast.BoolOp(op=ast.And(), values=vals), body=inner.body, orelse=[])
        return node


class ElseAfterExit(ast.NodeTransformer):
    """``if c: raise/return ...`` followed by the rest of the block -> the rest under ``else:``"""
    def _blocks(self, stmts):
        for i, s in enumerate(stmts):
            if isinstance(s, ast.If) and not s.orelse and isinstance(s.body[-1], (ast.Raise, ast.Return)) and stmts[i + 1:]:
                rest = self._blocks(stmts[i + 1:])
                s.orelse = rest
                Counter.n += 1
                return stmts[:i] + [s]
        return stmts

    def generic_visit(self, node):
        super().generic_visit(node)
        if isinstance(node, (ast.FunctionDef,)):
            node.body = self._blocks(node.body)
        return node


class DeMorgan(ast.NodeTransformer):
    """``not a and not b`` -> ``not (a or b)``; ``not (a and b)`` -> ``not a or not b``; ``not a or not b`` -> ``not (a and b)``"""
    def visit_BoolOp(self, node):
        self.generic_visit(node)
        if all(isinstance(v, ast.UnaryOp) and isinstance(v.op, ast.Not) for v in node.values):
            # truth value only: the value of `not a and not b` is a bool either way
            Counter.n += 1
            other = ast.Or() if isinstance(node.op, ast.And) else ast.And()
            return ast.UnaryOp(op=ast.Not(), operand=ast.BoolOp(op=other, values=[v.operand for v in node.values]))
        return node

    def visit_UnaryOp(self, node):
        if isinstance(node.op, ast.Not) and isinstance(node.operand, ast.BoolOp) \
                and not all(isinstance(v, ast.UnaryOp) and isinstance(v.op, ast.Not) for v in node.operand.values):
            inner = node.operand
            for v in inner.values:
                self.generic_visit(v)
            Counter.n += 1
            other = ast.Or() if isinstance(inner.op, ast.And) else ast.And()
            return ast.BoolOp(op=other, values=[ast.UnaryOp(op=ast.Not(), operand=v) for v in inner.values])
        self.generic_visit(node)
        return node


class Yoda(ast.NodeTransformer):
    """``x == <constant>`` -> ``<constant> == x`` (and !=): equality with a literal is symmetric"""
    def visit_Compare(self, node):
        self.generic_visit(node)
        if len(node.ops) == 1 and isinstance(node.ops[0], (ast.Eq, ast.NotEq)) and isinstance(node.comparators[0], ast.Constant) \
                and not isinstance(node.left, ast.Constant):
            Counter.n += 1
            return ast.Compare(left=node.comparators[0], ops=node.ops, comparators=[node.left])
        return node


class ReturnTemp(ast.NodeTransformer):
    """``return <call or operation>`` -> ``result_ = <...>; return result_``"""
    def visit_FunctionDef(self, node):
        self.generic_visit(node)
        names = _names_in(node)
        if "result_" in names:
            return node

        def blocks(stmts):
            out = []
            for s in stmts:
                for f in ("body", "orelse", "finalbody"):
                    if isinstance(getattr(s, f, None), list) and not isinstance(s, (ast.FunctionDef, ast.ClassDef)):
                        setattr(s, f, blocks(getattr(s, f)))
                if isinstance(s, ast.Try):
                    for h in s.handlers:
                        h.body = blocks(h.body)
                if isinstance(s, ast.Return) and s.value is not None and not isinstance(s.value, (ast.Name, ast.Constant, ast.Attribute)):
                    out.append(ast.Assign(targets=[ast.Name(id="result_", ctx=ast.Store())], value=s.value))
                    out.append(ast.Return(value=ast.Name(id="result_", ctx=ast.Load())))
                    Counter.n += 1
                else:
                    out.append(s)
            return out
        if any(isinstance(n, (ast.Yield, ast.YieldFrom)) for n in ast.walk(node)):
            return node
        node.body = blocks(node.body)
        return node


class ItemsToKeys(ast.NodeTransformer):
    """``for k, v in <pure expr>.items(): body`` -> ``for k in <expr>: v = <expr>[k]; body``"""
    def visit_For(self, node):
        self.generic_visit(node)
        it = node.iter
        if isinstance(it, ast.Call) and isinstance(it.func, ast.Attribute) and it.func.attr in ("items", "iteritems") and not it.args \
                and not it.keywords and _pure(it.func.value) and isinstance(node.target, ast.Tuple) and len(node.target.elts) == 2 \
                and all(isinstance(e, ast.Name) for e in node.target.elts):
            k, v = node.target.elts
            # the mapping must not be rebound or resized in the body; conservative: the body never stores through its root name
            root = it.func.value
            while isinstance(root, (ast.Attribute, ast.Subscript)):
                root = root.value
            if not isinstance(root, ast.Name):
                return node
            for n in ast.walk(ast.Module(body=node.body, type_ignores=[])):
                if isinstance(n, ast.Name) and isinstance(n.ctx, ast.Store) and n.id in (root.id, k.id):
                    return node
            Counter.n += 1
            bind = ast.Assign(targets=[ast.Name(id=v.id, ctx=ast.Store())],
                              value=ast.Subscript(value=copy.deepcopy(it.func.value), slice=ast.Name(id=k.id, ctx=ast.Load()), ctx=ast.Load()))
            return ast.For(target=ast.Name(id=k.id, ctx=ast.Store()), iter=it.func.value, body=[bind] + node.body, orelse=node.orelse)
        return node


class FormatStyle(ast.NodeTransformer):
    """``"...%s..." % (a, b)`` (only %s, a tuple literal on the right) -> ``"...{}...".format(a, b)``"""
    def visit_BinOp(self, node):
        self.generic_visit(node)
        if isinstance(node.op, ast.Mod) and isinstance(node.left, ast.Constant) and isinstance(node.left.value, str) \
                and isinstance(node.right, ast.Tuple):
            s = node.left.value
            import re
            specs = re.findall(r"%(.)", s)
            if specs and all(c == "s" for c in specs) and len(specs) == len(node.right.elts) and "%%" not in s:
                t = s.replace("{", "{{").replace("}", "}}").replace("%s", "{}")
                Counter.n += 1
                return ast.Call(func=ast.Attribute(value=ast.Constant(value=t), attr="format", ctx=ast.Load()), args=list(node.right.elts), keywords=[])
        return node


class ImportFrom(ast.NodeTransformer):
    """``import productmd.common`` + ``productmd.common.X`` -> ``from productmd import common as common_`` + ``common_.X``"""
    def __init__(self):
        self.mods = set()

    def visit_Attribute(self, node):
        self.generic_visit(node)
        if isinstance(node.value, ast.Attribute) and isinstance(node.value.value, ast.Name) and node.value.value.id == "productmd" \
                and node.value.attr in MODULES:
            self.mods.add(node.value.attr)
            Counter.n += 1
            return ast.Attribute(value=ast.Name(id=node.value.attr + "_", ctx=ast.Load()), attr=node.attr, ctx=node.ctx)
        return node

    def visit_Module(self, node):
        self.generic_visit(node)
        body = []
        for s in node.body:
            if isinstance(s, ast.Import) and all(a.name.startswith("productmd.") and a.name.split(".")[1] in MODULES and a.asname is None for a in s.names):
                for a in s.names:
                    m = a.name.split(".")[1]
                    body.append(ast.ImportFrom(module="productmd", names=[ast.alias(name=m, asname=m + "_")], level=0))
                    self.mods.discard(m)
            else:
                body.append(s)
        if self.mods:
            raise SystemExit("ImportFrom: productmd.%s used without a plain import" % sorted(self.mods))
        node.body = body
        return node


class ImportNames(ast.NodeTransformer):
    """``import productmd.common`` + ``productmd.common.X`` -> ``from productmd.common import X`` + ``X`` (no clash with module names)"""
    def visit_Module(self, node):
        taken = set()
        for n in ast.walk(node):
            if isinstance(n, ast.Name):
                taken.add(n.id)
            elif isinstance(n, ast.arg):
                taken.add(n.arg)
            elif isinstance(n, (ast.FunctionDef, ast.ClassDef)):
                taken.add(n.name)
            elif isinstance(n, ast.alias):
                taken.add((n.asname or n.name).split(".")[0])
        used = {}

        class Rw(ast.NodeTransformer):
            def visit_Attribute(self_, n):
                self_.generic_visit(n)
                if isinstance(n.value, ast.Attribute) and isinstance(n.value.value, ast.Name) and n.value.value.id == "productmd" \
                        and n.value.attr in MODULES and isinstance(n.ctx, ast.Load) and n.attr not in taken:
                    used.setdefault(n.value.attr, set()).add(n.attr)
                    Counter.n += 1
                    return ast.Name(id=n.attr, ctx=ast.Load())
                return n
        node = Rw().visit(node)
        body = []
        done = set()
        for s in node.body:
            body.append(s)
            if isinstance(s, ast.Import):
                for a in s.names:
                    parts = a.name.split(".")
                    if len(parts) == 2 and parts[0] == "productmd" and parts[1] in used and parts[1] not in done:
                        body.append(ast.ImportFrom(module=a.name, names=[ast.alias(name=x, asname=None) for x in sorted(used[parts[1]])], level=0))
                        done.add(parts[1])
        if set(used) - done:
            raise SystemExit("ImportNames: productmd.%s used without a plain import" % sorted(set(used) - done))
        node.body = body
        return node


class KeywordCalls(ast.NodeTransformer):
    """positional arguments of calls to the package's own helpers (unique name, plain positional parameters) passed by keyword"""
    SIGS = {}

    def visit_Call(self, node):
        self.generic_visit(node)
        name = node.func.attr if isinstance(node.func, ast.Attribute) else (node.func.id if isinstance(node.func, ast.Name) else None)
        sig = self.SIGS.get(name)
        if not sig or any(isinstance(a, ast.Starred) for a in node.args) or any(k.arg is None for k in node.keywords):
            return node
        params, is_method = sig
        if is_method and not (isinstance(node.func, ast.Attribute) and isinstance(node.func.value, ast.Name) and node.func.value.id == "self"):
            return node
        if not is_method and not isinstance(node.func, ast.Name):
            return node
        if len(node.args) > len(params) or len(node.args) < 2:
            return node
        keep = 1
        kws = [ast.keyword(arg=params[i], value=a) for i, a in enumerate(node.args) if i >= keep]
        node.args = node.args[:keep]
        node.keywords = kws + node.keywords
        Counter.n += 1
        return node


class DropSix(ast.NodeTransformer):
    """the six compatibility layer replaced by what it stands for under Python 3 (string_types -> (str,), integer_types -> (int,),
    itervalues(d) -> d.values(), StringIO -> io.StringIO, six.moves.* -> the standard library, PY3 -> True)"""
    # (the network helpers stay on six.moves: the repository's tests replace six.moves.urllib.request.urlopen)
    MAP = {"six.moves.http_client.HTTPResponse": "http.client.HTTPResponse"}

    def __init__(self):
        self.need = set()

    def visit_Call(self, node):
        self.generic_visit(node)
        f = node.func
        if isinstance(f, ast.Attribute) and isinstance(f.value, ast.Name) and f.value.id == "six" and f.attr in ("itervalues", "iteritems", "iterkeys") \
                and len(node.args) == 1:
            Counter.n += 1
            return ast.Call(func=ast.Attribute(value=node.args[0], attr=f.attr[4:], ctx=ast.Load()), args=[], keywords=[])
        return node

    def visit_Attribute(self, node):
        try:
            text = ast.unparse(node)
        except Exception:
            text = ""
        if text in self.MAP:
            Counter.n += 1
            self.need.add(self.MAP[text].rsplit(".", 1)[0])
            return ast.parse(self.MAP[text], mode="eval").body
        self.generic_visit(node)
        if isinstance(node.value, ast.Name) and node.value.id == "six":
            if node.attr == "string_types":
                Counter.n += 1
                return ast.Tuple(elts=[ast.Name(id="str", ctx=ast.Load())], ctx=ast.Load())
            if node.attr == "integer_types":
                Counter.n += 1
                return ast.Tuple(elts=[ast.Name(id="int", ctx=ast.Load())], ctx=ast.Load())
            if node.attr == "text_type":
                Counter.n += 1
                return ast.Name(id="str", ctx=ast.Load())
            if node.attr == "PY3":
                Counter.n += 1
                return ast.Constant(value=True)
            if node.attr == "StringIO":
                Counter.n += 1
                self.need.add("StringIO")
                return ast.Name(id="_StringIO", ctx=ast.Load())
        return node

    def visit_Module(self, node):
        self.generic_visit(node)
        body = []
        still = any(isinstance(n, ast.Name) and n.id == "six" for n in ast.walk(node))
        placed = False
        for s in node.body:
            if isinstance(s, ast.ImportFrom) and s.module == "six.moves.configparser":
                s = ast.ImportFrom(module="configparser", names=s.names, level=0)
                Counter.n += 1
            if s is not None:
                body.append(s)
            if not placed and isinstance(s, (ast.Import, ast.ImportFrom)) and not (isinstance(s, ast.ImportFrom) and s.module == "__future__"):
                for m in sorted(self.need):
                    if m == "StringIO":
                        body.append(ast.ImportFrom(module="io", names=[ast.alias(name="StringIO", asname="_StringIO")], level=0))
                    else:
                        body.append(ast.Import(names=[ast.alias(name=m, asname=None)]))
                placed = True
        node.body = body
        return node


class SuperPy3(ast.NodeTransformer):
    """``super(Cls, self).m(...)`` -> ``super().m(...)`` inside the methods of Cls"""
    def visit_ClassDef(self, node):
        cname = node.name
        for fn in node.body:
            if isinstance(fn, ast.FunctionDef) and fn.args.args:
                first = fn.args.args[0].arg
                for n in ast.walk(fn):
                    if isinstance(n, ast.Call) and isinstance(n.func, ast.Name) and n.func.id == "super" and len(n.args) == 2 \
                            and isinstance(n.args[0], ast.Name) and n.args[0].id == cname and isinstance(n.args[1], ast.Name) \
                            and n.args[1].id == first:
                        n.args = []
                        Counter.n += 1
        self.generic_visit(node)
        return node


class CompToLoop(ast.NodeTransformer):
    """``x = [e for v in it if c]`` (one generator, a plain name on the left) -> ``x = []`` + a loop appending e"""
    def _blocks(self, stmts):
        out = []
        for s in stmts:
            s = self.generic_visit(s)
            if isinstance(s, ast.Assign) and len(s.targets) == 1 and isinstance(s.targets[0], ast.Name) and isinstance(s.value, ast.ListComp) \
                    and len(s.value.generators) == 1 and not s.value.generators[0].is_async:
                g = s.value.generators[0]
                name = s.targets[0].id
                used = set(n.id for n in ast.walk(s.value) if isinstance(n, ast.Name))
                if name in used:
                    out.append(s)
                    continue
                app = ast.Expr(value=ast.Call(func=ast.Attribute(value=ast.Name(id=name, ctx=ast.Load()), attr="append", ctx=ast.Load()),
                                              args=[s.value.elt], keywords=[]))
                body = [app]
                for c in reversed(g.ifs):
                    body = [ast.If(test=c, body=body, orelse=[])]
                out.append(ast.Assign(targets=[ast.Name(id=name, ctx=ast.Store())], value=ast.List(elts=[], ctx=ast.Load())))
                out.append(ast.For(target=g.target, iter=g.iter, body=body, orelse=[]))
                Counter.n += 1
            else:
                out.append(s)
        return out

    def generic_visit(self, node):
        for f in ("body", "orelse", "finalbody"):
            if isinstance(getattr(node, f, None), list) and getattr(node, f) and isinstance(getattr(node, f)[0], ast.stmt):
                setattr(node, f, self._blocks(getattr(node, f)))
        if isinstance(node, ast.Try):
            for h in node.handlers:
                h.body = self._blocks(h.body)
        return node


class GetNone(ast.NodeTransformer):
    """``d.get(k, None)`` -> ``d.get(k)``; ``",".join([... for ...])`` -> ``",".join(... for ...)``"""
    def visit_Call(self, node):
        self.generic_visit(node)
        f = node.func
        if isinstance(f, ast.Attribute) and f.attr == "get" and len(node.args) == 2 and not node.keywords \
                and isinstance(node.args[1], ast.Constant) and node.args[1].value is None:
            Counter.n += 1
            node.args = node.args[:1]
        if isinstance(f, ast.Attribute) and f.attr == "join" and len(node.args) == 1 and isinstance(node.args[0], ast.ListComp):
            Counter.n += 1
            node.args = [ast.GeneratorExp(elt=node.args[0].elt, generators=node.args[0].generators)]
        return node


class InTuple(ast.NodeTransformer):
    """``x in [<literals>]`` -> ``x in (<literals>)`` and the other way round"""
    def visit_Compare(self, node):
        self.generic_visit(node)
        if len(node.ops) == 1 and isinstance(node.ops[0], (ast.In, ast.NotIn)):
            c = node.comparators[0]
            if isinstance(c, (ast.List, ast.Tuple)) and c.elts and all(isinstance(e, ast.Constant) for e in c.elts):
                Counter.n += 1
                other = ast.Tuple if isinstance(c, ast.List) else ast.List
                node.comparators = [other(elts=c.elts, ctx=ast.Load())]
        return node


class EmptyLiteralCalls(ast.NodeTransformer):
    """``[]`` -> ``list()``, ``{}`` -> ``dict()`` where a fresh empty container is assigned or passed"""
    def visit_List(self, node):
        if not node.elts and isinstance(node.ctx, ast.Load):
            Counter.n += 1
            return ast.Call(func=ast.Name(id="list", ctx=ast.Load()), args=[], keywords=[])
        self.generic_visit(node)
        return node

    def visit_Dict(self, node):
        if not node.keys:
            Counter.n += 1
            return ast.Call(func=ast.Name(id="dict", ctx=ast.Load()), args=[], keywords=[])
        self.generic_visit(node)
        return node


class SplitTupleAssign(ast.NodeTransformer):
    """``a, b = x, y`` (two literal tuples, no target read on the right) -> ``a = x`` ; ``b = y``"""
    def _blocks(self, stmts):
        out = []
        for s in stmts:
            s = self.generic_visit(s)
            if isinstance(s, ast.Assign) and len(s.targets) == 1 and isinstance(s.targets[0], ast.Tuple) and isinstance(s.value, ast.Tuple) \
                    and len(s.targets[0].elts) == len(s.value.elts) and all(isinstance(t, (ast.Name, ast.Attribute)) for t in s.targets[0].elts) \
                    and not any(isinstance(e, ast.Starred) for e in s.value.elts):
                tnames = set(ast.unparse(t) for t in s.targets[0].elts)
                rnames = set(ast.unparse(n) for e in s.value.elts for n in ast.walk(e) if isinstance(n, (ast.Name, ast.Attribute)))
                if not (tnames & rnames) and all(_pure(e) for e in s.value.elts):
                    for t, e in zip(s.targets[0].elts, s.value.elts):
                        out.append(ast.Assign(targets=[t], value=e))
                    Counter.n += 1
                    continue
            out.append(s)
        return out

    def generic_visit(self, node):
        for f in ("body", "orelse", "finalbody"):
            if isinstance(getattr(node, f, None), list) and getattr(node, f) and isinstance(getattr(node, f)[0], ast.stmt):
                setattr(node, f, self._blocks(getattr(node, f)))
        if isinstance(node, ast.Try):
            for h in node.handlers:
                h.body = self._blocks(h.body)
        return node


def _same_exit(a, b):
    return len(a) == 1 and len(b) == 1 and isinstance(a[0], (ast.Continue, ast.Break, ast.Return, ast.Raise)) and ast.dump(a[0]) == ast.dump(b[0])


class MergeExits(ast.NodeTransformer):
    """consecutive ``if a: <exit>`` / ``if b: <same exit>`` -> ``if a or b: <exit>``"""
    def _blocks(self, stmts):
        out = []
        for s in stmts:
            s = self.generic_visit(s)
            if out and isinstance(s, ast.If) and not s.orelse and isinstance(out[-1], ast.If) and not out[-1].orelse \
                    and _same_exit(out[-1].body, s.body) and not isinstance(s.body[0], ast.Raise):
                prev = out[-1]
                vals = []
                for t in (prev.test, s.test):
                    vals.extend(t.values if isinstance(t, ast.BoolOp) and isinstance(t.op, ast.Or) else [t])
                out[-1] = ast.If(test=ast.BoolOp(op=ast.Or(), values=vals), body=prev.body, orelse=[])
                Counter.n += 1
                continue
            out.append(s)
        return out
    generic_visit = SplitTupleAssign.generic_visit


class SplitOrExits(ast.NodeTransformer):
    """``if a or b: <exit>`` -> ``if a: <exit>`` ; ``if b: <exit>``"""
    def _blocks(self, stmts):
        out = []
        for s in stmts:
            s = self.generic_visit(s)
            if isinstance(s, ast.If) and not s.orelse and len(s.body) == 1 and isinstance(s.body[0], (ast.Continue, ast.Break, ast.Return, ast.Raise)) \
                    and isinstance(s.test, ast.BoolOp) and isinstance(s.test.op, ast.Or):
                for v in s.test.values:
                    out.append(ast.If(test=v, body=[copy.deepcopy(s.body[0])], orelse=[]))
                Counter.n += 1
                continue
            out.append(s)
        return out
    generic_visit = SplitTupleAssign.generic_visit


class IsinstanceSplit(ast.NodeTransformer):
    """``isinstance(x, (A, B))`` with a pure x -> ``isinstance(x, A) or isinstance(x, B)``"""
    def visit_Call(self, node):
        self.generic_visit(node)
        if isinstance(node.func, ast.Name) and node.func.id == "isinstance" and len(node.args) == 2 and isinstance(node.args[1], ast.Tuple) \
                and len(node.args[1].elts) > 1 and _pure(node.args[0]):
            Counter.n += 1
            return ast.BoolOp(op=ast.Or(), values=[ast.Call(func=ast.Name(id="isinstance", ctx=ast.Load()),
                                                            args=[copy.deepcopy(node.args[0]), t], keywords=[]) for t in node.args[1].elts])
        return node


class ExtractConstants(ast.NodeTransformer):
    """string literals used three times or more inside the functions of a module -> a module-level constant"""
    def visit_Module(self, node):
        counts = {}
        doc = set()
        for n in ast.walk(node):
            if isinstance(n, (ast.FunctionDef, ast.ClassDef, ast.Module)) and n.body and isinstance(n.body[0], ast.Expr) \
                    and isinstance(n.body[0].value, ast.Constant):
                doc.add(id(n.body[0].value))
        fns = [n for n in ast.walk(node) if isinstance(n, ast.FunctionDef)]
        inside = set()
        for f in fns:
            for n in ast.walk(f):
                if isinstance(n, ast.JoinedStr):
                    for x in ast.walk(n):
                        doc.add(id(x))
            for n in ast.walk(f):
                if isinstance(n, ast.Constant) and isinstance(n.value, str) and id(n) not in doc and 2 <= len(n.value) <= 30 \
                        and n.value.replace("_", "").replace("-", "").isalnum():
                    inside.add(id(n))
                    counts[n.value] = counts.get(n.value, 0) + 1
        # (defaults of parameters are evaluated at definition time: before the constants below exist only if they are placed
        # after; they are placed first, right after the imports)
        taken = set(n.id for n in ast.walk(node) if isinstance(n, ast.Name))
        names = {}
        for v, c in sorted(counts.items()):
            if c >= 3:
                nm = "_K_" + "".join(ch if ch.isalnum() else "_" for ch in v).upper()
                if nm not in taken and nm not in names.values():
                    names[v] = nm

        class Rw(ast.NodeTransformer):
            def visit_Constant(self_, n):
                if id(n) in inside and n.value in names:
                    Counter.n += 1
                    return ast.Name(id=names[n.value], ctx=ast.Load())
                return n
        node = Rw().visit(node)
        body = []
        placed = False
        last_import = max([i for i, s_ in enumerate(node.body) if isinstance(s_, (ast.Import, ast.ImportFrom))] or [-1])
        for i, s_ in enumerate(node.body):
            body.append(s_)
            if i == last_import and not placed:
                for v, nm in sorted(names.items(), key=lambda kv: kv[1]):
                    body.append(ast.Assign(targets=[ast.Name(id=nm, ctx=ast.Store())], value=ast.Constant(value=v)))
                placed = True
        if not placed:
            body = [ast.Assign(targets=[ast.Name(id=nm, ctx=ast.Store())], value=ast.Constant(value=v)) for v, nm in sorted(names.items())] + body
        node.body = body
        return node


class RenameParams(ast.NodeTransformer):
    """the parameters of private functions and methods (leading underscore) renamed, keyword call sites updated"""
    RENAMED = {}

    def visit_FunctionDef(self, node):
        self.generic_visit(node)
        if node.name.startswith("_") and not node.name.startswith("__") and node.name in self.RENAMED:
            skip = 1 if node.args.args and node.args.args[0].arg in ("self", "cls") else 0
            m = dict((a.arg, "p_" + a.arg) for a in node.args.args[skip:])
            if m and not (set(m.values()) & _names_in(node)):
                for a in node.args.args[skip:]:
                    a.arg = m[a.arg]
                for n in ast.walk(node):
                    if isinstance(n, ast.Name) and n.id in m:
                        n.id = m[n.id]
                Counter.n += 1
        return node

    def visit_Call(self, node):
        self.generic_visit(node)
        name = node.func.attr if isinstance(node.func, ast.Attribute) else (node.func.id if isinstance(node.func, ast.Name) else None)
        if name in self.RENAMED:
            for k in node.keywords:
                if k.arg in self.RENAMED[name]:
                    k.arg = "p_" + k.arg
        return node


def _collect_private(trees):
    """private callables whose every definition can be renamed consistently: {name: set of parameter names}"""
    seen = {}
    for t in trees.values():
        for n in ast.walk(t):
            if isinstance(n, ast.FunctionDef) and n.name.startswith("_") and not n.name.startswith("__"):
                skip = 1 if n.args.args and n.args.args[0].arg in ("self", "cls") else 0
                ps = set(a.arg for a in n.args.args[skip:])
                ok = not n.args.kwarg and not n.args.vararg and not n.args.kwonlyargs and not (set("p_" + p for p in ps) & _names_in(n))
                seen.setdefault(n.name, []).append((ps, ok))
    return dict((k, set().union(*[ps for ps, _ in v])) for k, v in seen.items() if all(ok for _, ok in v))


def _collect_sigs(trees):
    seen = {}
    for t in trees.values():
        for n in ast.walk(t):
            if isinstance(n, ast.ClassDef):
                for f in n.body:
                    if isinstance(f, ast.FunctionDef):
                        seen.setdefault(f.name, []).append((f, True))
        for f in t.body:
            if isinstance(f, ast.FunctionDef):
                seen.setdefault(f.name, []).append((f, False))
    out = {}
    for name, defs in seen.items():
        if name.startswith("__"):
            continue
        sigs = set()
        for f, is_m in defs:
            a = f.args
            if a.vararg or a.kwarg or a.kwonlyargs or a.posonlyargs or f.decorator_list:
                sigs.add(None)
                continue
            ps = [x.arg for x in a.args]
            sigs.add((tuple(ps[1:] if is_m else ps), is_m))
        if len(sigs) == 1 and None not in sigs:
            out[name] = list(sigs)[0]
    return out


TRANSFORMS = {
    "ifexp-to-stmt": IfExpToStmt, "and-to-nested": AndToNested, "nested-to-and": NestedToAnd, "else-after-exit": ElseAfterExit,
    "de-morgan": DeMorgan, "yoda": Yoda, "return-temp": ReturnTemp, "items-to-keys": ItemsToKeys, "format-style": FormatStyle,
    "import-from": ImportFrom, "import-names": ImportNames, "keyword-calls": KeywordCalls,
    "drop-six": DropSix, "super-py3": SuperPy3, "comp-to-loop": CompToLoop, "get-none": GetNone, "in-tuple": InTuple,
    "empty-literal-calls": EmptyLiteralCalls, "split-tuple-assign": SplitTupleAssign, "merge-exits": MergeExits,
    "split-or-exits": SplitOrExits, "isinstance-split": IsinstanceSplit, "extract-constants": ExtractConstants,
    "rename-params": RenameParams,
}


def main(argv):
    if argv[:1] == ["--list"]:
        for k, v in sorted(TRANSFORMS.items()):
            print("%-16s %s" % (k, (v.__doc__ or "").strip()))
        return 0
    name, tree = argv
    if os.path.realpath(tree) == "/repo":
        raise SystemExit("refusing to rewrite /repo: use a scratch worktree")
    trees = {}
    for m in MODULES:
        p = os.path.join(tree, "productmd", m + ".py")
        with open(p) as fh:
            trees[m] = ast.parse(fh.read())
    if name == "keyword-calls":
        KeywordCalls.SIGS = _collect_sigs(trees)
    if name == "rename-params":
        RenameParams.RENAMED = _collect_private(trees)
    total = 0
    for m in MODULES:
        Counter.n = 0
        before = ast.dump(trees[m])
        new = TRANSFORMS[name]().visit(trees[m])
        ast.fix_missing_locations(new)
        if ast.dump(new) != before:
            src = ast.unparse(new) + "\n"
            compile(src, m, "exec")
            with open(os.path.join(tree, "productmd", m + ".py"), "w") as fh:
                fh.write(src)
        print("%-12s %d sites" % (m, Counter.n))
        total += Counter.n
    print("total %d sites" % total)
    return 0


if __name__ == "__main__":
    sys.exit(main(sys.argv[1:]))
