#!/venv/bin/python
"""re-run every stored seed in /verif/seeded against the current checks; update meta.json; print a scoreboard"""
import json, os, subprocess, sys
from concurrent.futures import ThreadPoolExecutor
HERE = os.path.dirname(os.path.dirname(os.path.abspath(__file__)))
SD = os.path.join(HERE, "seeded")

def one(name):
    d = os.path.join(SD, name)
    p = subprocess.run([os.path.join(HERE, "tools", "try_seed.py"), os.path.join(d, "patch.diff"), os.path.join(d, "demo.py")],
                       stdout=subprocess.PIPE, text=True)
    try:
        res = json.loads(p.stdout)
    except Exception:
        return name, None
    m = json.load(open(os.path.join(d, "meta.json")))
    m["checks_fired"] = res.get("fired", [])
    m["analysis_errors"] = res.get("analysis_errors", [])
    m["confirmed"]["tests_with_seed"] = res.get("tests_with_seed")
    m["confirmed"]["demo_with_seed_rc"] = res.get("demo_with_seed_rc")
    m["confirmed"]["demo_clean_rc"] = res.get("demo_clean_rc")
    json.dump(m, open(os.path.join(d, "meta.json"), "w"), indent=1)
    return name, m

def main():
    names = sorted(n for n in os.listdir(SD) if os.path.isdir(os.path.join(SD, n)))
    if len(sys.argv) > 1:
        names = [n for n in names if n in sys.argv[1:]]
    with ThreadPoolExecutor(max_workers=8) as ex:
        results = list(ex.map(one, names))
    hit = 0
    for name, m in results:
        if m is None:
            print(name, "ERROR"); continue
        target = m["property"]
        fired = [f[0] for f in m["checks_fired"]]
        ok = target in fired
        hit += ok
        print("%-7s target=%s %-6s fired=%s errors=%s" % (name, target, "HIT" if ok else ("other" if fired else "MISS"), fired, [e[0] for e in m["analysis_errors"]]))
    print("%d/%d seeds detected by the check of their own property; %d by some check" % (
        hit, len(results), sum(1 for n, m in results if m and m["checks_fired"])))

if __name__ == "__main__":
    main()
