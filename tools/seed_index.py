#!/venv/bin/python
"""write /verif/seeded/INDEX.md: which checks catch which seeded changes (from the meta.json files)"""
import json, os
HERE = os.path.dirname(os.path.dirname(os.path.abspath(__file__)))
SD = os.path.join(HERE, "seeded")
rows = []
for n in sorted(os.listdir(SD)):
    p = os.path.join(SD, n, "meta.json")
    if not os.path.exists(p):
        continue
    m = json.load(open(p))
    rules = []
    for pid, msgs in m.get("checks_fired", []):
        for line in msgs[:1]:
            parts = line.split()
            if len(parts) > 2:
                rules.append("%s:%s" % (pid, parts[1]))
    rows.append((n, m.get("round", 1), m["property"], m.get("detected_by", []), rules, m.get("summary", "").replace("|", "/").replace("\n", " ")[:230],
                 m.get("needs", "").replace("|", "/").replace("\n", " ")[:160]))
out = ["# Seeded changes and the checks that catch them", "",
       "Each directory holds `patch.diff` (the change), `demo.py` (fails with the change, passes without) and `meta.json`.",
       "All were produced by independent sub-agents that saw only the property text and a scratch worktree, and were confirmed",
       "with `tools/try_seed.py` (90/90 tests with the seed; demo fails with it and passes without). Round 1 seeds drove the first",
       "strengthening of the rules; rounds 2 and 3 were run against rules that had never seen them (DESIGN.md 9.5 gives the before/after",
       "numbers).", "",
       "| seed | round | property | detected by (checks) | first failing rule per check | what the change does | what it needs to manifest |",
       "|---|---|---|---|---|---|---|"]
for r in rows:
    out.append("| %s | %s | %s | %s | %s | %s | %s |" % (r[0], r[1], r[2], ", ".join(r[3]) or "**none**", "; ".join(r[4]), r[5], r[6]))
by = {}
for r in rows:
    d = by.setdefault(r[2], [0, 0, 0])
    d[0] += 1
    d[1] += r[2] in r[3]
    d[2] += bool(r[3])
out += ["", "| property | seeds | caught by its own check | caught by some check |", "|---|---|---|---|"]
for k in sorted(by):
    out.append("| %s | %d | %d | %d |" % (k, by[k][0], by[k][1], by[k][2]))
out.append("| total | %d | %d | %d |" % (sum(v[0] for v in by.values()), sum(v[1] for v in by.values()), sum(v[2] for v in by.values())))
open(os.path.join(SD, "INDEX.md"), "w").write("\n".join(out) + "\n")
print("\n".join(out[-24:]))
