#!/bin/bash
# tools/seedcheck.sh <seed-or-patch> [Cxx ...]   run checks against a scratch copy of /repo with one stored patch applied (development aid)
s=$1; shift
p=$s; [ -f "$p" ] || p=/verif/seeded/$s/patch.diff; [ -f "$p" ] || p=/verif/neutral/$s/patch.diff; [ -f "$p" ] || p=/verif/evolution/$s/patch.diff
d=$(mktemp -d /tmp/sc_XXXXXX)
mkdir -p $d/repo && cp -r /repo/productmd /repo/doc $d/repo/ && (cd $d/repo && git init -q . 2>/dev/null; git apply "$p") || { echo "patch failed"; rm -rf $d; exit 3; }
props="$@"; [ -z "$props" ] && props=$(seq -f 'C%02g' 1 20)
cd /verif
for c in $props; do /venv/bin/python -m pmdcheck $c --quiet --repo $d/repo --evidence-dir $d/ev 2>&1 | sed "s/^/$c /" | grep -v ' OK \| KNOWN-FINDING\|WARNING\| VIOLATION' | cut -c1-${COLS:-400}; done
rm -rf $d
