#!/venv/bin/python
"""
Validate one seeded change and run the checks against it (development tool, not a registered check).

  tools/try_seed.py <patch> <demo.py> [--props C01,C02]

Works on scratch copies of /repo under $TMPDIR (removed afterwards): never touches /repo.
Prints: tests with seed, demo with seed (must fail), demo without (must pass), and which checks fire.
"""
import os, shutil, subprocess, sys, tempfile, json

def sh(cmd, cwd=None, env=None):
    p = subprocess.run(cmd, shell=True, cwd=cwd, env=env, stdout=subprocess.PIPE, stderr=subprocess.STDOUT, text=True)
    return p.returncode, p.stdout

def main():
    patch, demo = os.path.abspath(sys.argv[1]), os.path.abspath(sys.argv[2])
    props = None
    if "--props" in sys.argv:
        props = sys.argv[sys.argv.index("--props") + 1].split(",")
    tmp = tempfile.mkdtemp(prefix="pmd_seed_")
    res = {}
    try:
        clean = os.path.join(tmp, "clean"); seeded = os.path.join(tmp, "seeded")
        for d in (clean, seeded):
            sh("git -C /repo worktree add -q --detach %s HEAD" % d)
        rc, out = sh("git apply %s" % patch, cwd=seeded)
        if rc != 0:
            print("PATCH DOES NOT APPLY:\n" + out); return 3
        env = dict(os.environ)
        env["PYTHONPATH"] = seeded
        rc, out = sh("/venv/bin/python -m pytest -q -p no:cacheprovider -x 2>&1 | tail -3", cwd=seeded, env=env)
        res["tests_with_seed"] = out.strip().splitlines()[-1] if out.strip() else "?"
        rc1, out1 = sh("/venv/bin/python %s" % demo, cwd=seeded, env=env)
        res["demo_with_seed_rc"] = rc1
        res["demo_with_seed_out"] = out1.strip()[-400:]
        env["PYTHONPATH"] = clean
        rc2, out2 = sh("/venv/bin/python %s" % demo, cwd=clean, env=env)
        res["demo_clean_rc"] = rc2
        if rc2 != 0:
            res["demo_clean_out"] = out2.strip()[-400:]
        from_verif = os.path.dirname(os.path.dirname(os.path.abspath(__file__)))
        fired, errors = [], []
        import glob
        ids = props or ["C%02d" % i for i in range(1, 21)]
        for pid in ids:
            rc, out = sh("/venv/bin/python -m pmdcheck %s --quiet --repo %s --evidence-dir %s/ev" % (pid, seeded, tmp), cwd=from_verif)
            if rc == 1:
                fired.append((pid, [l for l in out.splitlines() if l.startswith("FAILED")][:3]))
            elif rc == 2:
                errors.append((pid, [l for l in out.splitlines() if "ANALYSIS-ERROR" in l][:2]))
        res["fired"] = fired
        res["analysis_errors"] = errors
    finally:
        for d in ("clean", "seeded"):
            sh("git -C /repo worktree remove --force %s" % os.path.join(tmp, d))
        shutil.rmtree(tmp, ignore_errors=True)
    print(json.dumps(res, indent=1))
    return 0

if __name__ == "__main__":
    sys.exit(main())
